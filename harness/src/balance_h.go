package leveldb

// C09-balance (also C11-commit): every lock-taking entry point releases what
// it acquired on every error path. The callees that need the background
// goroutines or storage are replaced (declaration-line rewrites) by stubs that
// fail or succeed nondeterministically; the lock protocol itself is the tree's
// code.

import (
	"errors"

	"github.com/syndtr/goleveldb/leveldb/memdb"
	"github.com/syndtr/goleveldb/leveldb/opt"
	"github.com/syndtr/goleveldb/leveldb/storage"
)

var errZZFault = errors.New("zz: injected fault")

func zzFail() error {
	if vpNondetBool() {
		return errZZFault
	}
	return nil
}

var zzCommitCalls, zzCommitOK int
var zzSeqAtCommit []uint64

func (db *DB) rotateMem(n int, wait bool) (*memDB, error) {
	if err := zzFail(); err != nil {
		return nil, err
	}
	// contract on success (wait=true): the old buffer has been flushed, a fresh one is current
	db.mem = &memDB{db: db, DB: memdb.New(db.s.icmp, 64), ref: 1}
	if wait {
		db.frozenMem = nil
	}
	return db.mem, nil
}

func (db *DB) waitCompaction() error { return zzFail() }

// compTriggerWait(mcompCmdC): on success every pending write-buffer flush is done
func (db *DB) compTriggerWait(compC chan<- cCmd) error {
	if err := zzFail(); err != nil {
		return err
	}
	db.memMu.Lock()
	db.frozenMem = nil
	db.memMu.Unlock()
	return nil
}

func (tr *Transaction) flush() error {
	if err := zzFail(); err != nil {
		return err
	}
	if tr.mem.Len() != 0 {
		t := &tFile{fd: storage.FileDesc{Type: storage.TypeTable, Num: int64(100 + len(tr.tables))}, size: 1}
		tr.tables = append(tr.tables, t)
		tr.rec.addTableFile(0, t)
		tr.mem.Reset()
	}
	return nil
}

var zzCommitRecSeq uint64
var zzCommitRecHasSeq bool
var zzCommitRecTables int

func (s *session) commit(r *sessionRecord, trivial bool) error {
	zzCommitCalls++
	if err := zzFail(); err != nil {
		return err
	}
	zzCommitOK++
	zzCommitRecHasSeq = r.has(recSeqNum)
	zzCommitRecSeq = r.seqNum
	zzCommitRecTables = len(r.addedTables)
	return nil
}

var zzRemoved []int64

func (t *tOps) remove(fd storage.FileDesc) { zzRemoved = append(zzRemoved, fd.Num) }

func zzMkDB() *DB {
	zzCommitCalls, zzCommitOK, zzRemoved = 0, 0, nil
	s := &session{stor: newIStorage(storage.NewMemStorage())}
	s.setOptions(&opt.Options{WriteBuffer: 64})
	s.tops = &tOps{s: s}
	db := &DB{
		s:           s,
		seq:         10,
		memPool:     make(chan *memdb.DB, 1),
		writeLockC:  make(chan struct{}, 1),
		closeC:      make(chan struct{}),
		compPerErrC: make(chan error),
		compErrC:    make(chan error),
	}
	db.mem = &memDB{db: db, DB: memdb.New(s.icmp, 64), ref: 1}
	return db
}

func zzWriteLockFree(db *DB) bool { return len(db.writeLockC) == 0 }

func zzCommitLockFree(db *DB) bool {
	if db.compCommitLk.TryLock() {
		db.compCommitLk.Unlock()
		return true
	}
	return false
}

func zzCheckReleased(db *DB, what string) {
	vpAssert(zzWriteLockFree(db), "write-lock-released")
	vpAssert(zzCommitLockFree(db), "commit-lock-released")
	vpAssert(db.tr == nil, "no-transaction-left-open")
}

func ZZ_C09_transaction() {
	db := zzMkDB()
	if vpChoose(2) == 1 {
		db.mem.Put(makeInternalKey(nil, []byte("a"), 1, keyTypeVal), []byte("x"))
	}
	tr, err := db.OpenTransaction()
	if err != nil {
		// a failed OpenTransaction must leave nothing acquired
		zzCheckReleased(db, "open-failed")
		return
	}
	vpAssert(!zzWriteLockFree(db) && db.tr == tr, "open-holds-write-lock")
	nput := vpChoose(3)
	for i := 0; i < nput; i++ {
		vpAssert(tr.Put([]byte{byte('k' + i)}, []byte("v"), nil) == nil, "tr-put-ok")
	}
	seq0 := db.seq
	switch vpChoose(2) {
	case 0:
		cerr := tr.Commit()
		// the commit lock is never held across a return
		vpAssert(zzCommitLockFree(db), "commit-lock-released-after-commit")
		if cerr == nil {
			zzCheckReleased(db, "commit-ok")
			vpAssert(db.seq == seq0+uint64(nput), "commit-publishes-sequence")
			vpAssert(len(tr.tables) == 0 || zzCommitOK == 1, "commit-exactly-one-successful-edit")
			if len(tr.tables) != 0 {
				// the manifest edit carries every table of the transaction and the
				// sequence number of its last record: a reopen must see all of it
				vpAssert(zzCommitRecTables == len(tr.tables), "commit-edit-carries-all-tables")
				vpAssert(zzCommitRecHasSeq && zzCommitRecSeq == seq0+uint64(nput), "commit-edit-records-final-sequence")
			}
		} else {
			vpAssert(db.seq == seq0, "failed-commit-leaves-sequence")
			vpAssert(zzCommitOK == 0, "failed-commit-no-edit-applied")
			// documented recovery: retry the commit, or discard
			if vpChoose(2) == 1 {
				if tr.Commit() == nil {
					zzCheckReleased(db, "retried-commit-ok")
					vpAssert(db.seq == seq0+uint64(nput), "retried-commit-publishes-sequence")
					return
				}
				vpAssert(zzCommitLockFree(db), "commit-lock-released-after-retried-commit")
			}
			tr.Discard()
			zzCheckReleased(db, "discard-after-failed-commit")
			vpAssert(len(zzRemoved) == len(tr.tables), "discard-removes-every-table")
		}
	default:
		tr.Discard()
		zzCheckReleased(db, "discard")
		vpAssert(db.seq == seq0, "discard-leaves-sequence")
		vpAssert(len(zzRemoved) == len(tr.tables), "discard-removes-every-table")
		tr.Discard() // harmless
		vpAssert(tr.Commit() == errTransactionDone, "done-after-discard")
	}
}

// a batch larger than the write buffer goes through a transaction
func ZZ_C09_bigwrite() {
	db := zzMkDB()
	b := new(Batch)
	for i := 0; i < 3; i++ {
		b.Put([]byte{byte('a' + i)}, make([]byte, 30))
	}
	vpAssert(b.internalLen > db.s.o.GetWriteBuffer(), "batch-is-large")
	seq0 := db.seq
	err := db.Write(b, nil)
	zzCheckReleased(db, "bigwrite")
	if err == nil {
		vpAssert(db.seq == seq0+3, "bigwrite-publishes-all")
	} else {
		vpAssert(db.seq == seq0, "failed-bigwrite-publishes-nothing")
	}
}

func ZZ_C09_witness() {
	ZZ_C09_transaction()
	vpAssert(false, "witness")
}


// C11-open (also C04-seqnum): a transaction fixes its sequence number only
// when no unflushed write buffer is left behind it — otherwise the sequence
// number it records in the manifest overtakes journal records that recovery
// would then drop.
func ZZ_C11_open() {
	db := zzMkDB()
	if vpChoose(2) == 1 {
		db.mem.Put(makeInternalKey(nil, []byte("a"), 1, keyTypeVal), []byte("x"))
	}
	if vpChoose(2) == 1 {
		fm := memdb.New(db.s.icmp, 64)
		fm.Put(makeInternalKey(nil, []byte("b"), 2, keyTypeVal), []byte("y"))
		db.frozenMem = &memDB{db: db, DB: fm, ref: 1}
	}
	tr, err := db.OpenTransaction()
	if err != nil {
		zzCheckReleased(db, "open-failed")
		return
	}
	vpAssert(db.frozenMem == nil && db.mem.Len() == 0, "no-unflushed-buffer-behind-transaction")
	vpAssert(tr.seq == db.seq, "transaction-starts-at-db-sequence")
}

// C11-put: records get consecutive sequence numbers after the transaction's
// start, in order; the DB's own sequence is untouched until commit.
func ZZ_C11_put() {
	db := zzMkDB()
	tr, err := db.OpenTransaction()
	if err != nil {
		return
	}
	seq0 := db.seq
	n := 1 + vpChoose(3)
	var keys [][]byte
	for i := 0; i < n; i++ {
		k := []byte{vpNondetU8()}
		var e error
		if vpChoose(2) == 0 {
			e = tr.Put(k, []byte{vpNondetU8()}, nil)
		} else {
			e = tr.Delete(k, nil)
		}
		vpAssert(e == nil, "tr-write-ok")
		keys = append(keys, k)
		vpAssert(tr.seq == seq0+uint64(i+1), "tr-seq-advances-by-one")
		vpAssert(db.seq == seq0, "db-seq-untouched-while-open")
		// the record just written carries exactly that sequence number
		ik := makeInternalKey(nil, k, tr.seq, keyTypeSeek)
		rk, _, ferr := tr.mem.Find(ik)
		vpAssert(ferr == nil, "tr-record-in-buffer")
		u, s, _, perr := parseInternalKey(rk)
		vpAssert(perr == nil && vpEqBytes(u, k) && s == tr.seq, "tr-record-has-next-sequence")
	}
	tr.Discard()
	vpAssert(db.seq == seq0, "discard-leaves-sequence")
}
