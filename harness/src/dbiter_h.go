package leveldb

// C02-dbiter: the DB iterator over an arbitrary sorted stream of internal
// keys (several versions per user key, tombstones, entries newer than the
// iterator's sequence) presents exactly the visible pairs and follows the
// cursor contract for any movement sequence.

import (
	"sort"

	"github.com/syndtr/goleveldb/leveldb/comparer"
	"github.com/syndtr/goleveldb/leveldb/iterator"
)

type zzArr struct {
	icmp       *iComparer
	keys, vals [][]byte
}

func (a *zzArr) Len() int { return len(a.keys) }
func (a *zzArr) Search(key []byte) int {
	return sort.Search(len(a.keys), func(i int) bool { return a.icmp.Compare(a.keys[i], key) >= 0 })
}
func (a *zzArr) Index(i int) (key, value []byte) { return a.keys[i], a.vals[i] }

type zzEnt struct {
	u   []byte
	seq uint64
	kt  keyType
	v   []byte
}

// zzStream builds n entries sorted by the internal comparer (strictly).
func zzStream(icmp *iComparer, n int) ([]zzEnt, *zzArr) {
	arr := &zzArr{icmp: icmp}
	ents := make([]zzEnt, n)
	for i := 0; i < n; i++ {
		e := zzEnt{u: []byte{vpNondetU8()}, seq: zzSeq(), kt: zzKT(), v: []byte{vpNondetU8()}}
		ik := makeInternalKey(nil, e.u, e.seq, e.kt)
		if i > 0 {
			vpAssume(icmp.Compare(arr.keys[i-1], ik) < 0)
			// one sequence number is used for one write only
			for j := 0; j < i; j++ {
				vpAssume(ents[j].seq != e.seq)
			}
		}
		ents[i] = e
		arr.keys = append(arr.keys, ik)
		arr.vals = append(arr.vals, e.v)
	}
	return ents, arr
}

// zzVisible computes the live pairs at sequence seq from the sorted stream.
func zzVisible(icmp *iComparer, ents []zzEnt, seq uint64) (K, V [][]byte) {
	for i := 0; i < len(ents); {
		j := i
		decided := false
		for j < len(ents) && icmp.uCompare(ents[j].u, ents[i].u) == 0 {
			if !decided && ents[j].seq <= seq {
				decided = true
				if ents[j].kt == keyTypeVal {
					K = append(K, ents[j].u)
					V = append(V, ents[j].v)
				}
			}
			j++
		}
		i = j
	}
	return
}

func zzDBIterWalk(ucmp comparer.Comparer, n int) {
	icmp := &iComparer{ucmp}
	ents, arr := zzStream(icmp, n)
	seq := zzSeq()
	K, V := zzVisible(icmp, ents, seq)
	m := len(K)
	it := &dbIter{icmp: icmp, iter: iterator.NewArrayIterator(arr), seq: seq, disableSampling: true, key: make([]byte, 0), value: make([]byte, 0)}
	p := -1
	for step := 0; step < zzMoves; step++ {
		var ok bool
		switch vpChoose(5) {
		case 0:
			ok = it.First()
			p = 0
		case 1:
			ok = it.Last()
			p = m - 1
		case 2:
			ok = it.Next()
			if p < m {
				p++
			}
		case 3:
			ok = it.Prev()
			if p > -1 {
				p--
			}
		default:
			sk := []byte{vpNondetU8()}
			ok = it.Seek(sk)
			p = m
			for i := range K {
				if ucmp.Compare(K[i], sk) >= 0 {
					p = i
					break
				}
			}
		}
		valid := p >= 0 && p < m
		vpAssert(it.Error() == nil, "no-error")
		vpAssert(ok == valid, "move-result")
		vpAssert(it.Valid() == valid, "valid")
		if valid {
			vpAssert(len(it.Key()) == len(K[p]) && vpEqBytes(it.Key(), K[p]), "iter-key")
			vpAssert(len(it.Value()) == len(V[p]) && vpEqBytes(it.Value(), V[p]), "iter-value")
		} else {
			vpAssert(it.Key() == nil && it.Value() == nil, "iter-nil-when-invalid")
		}
	}
}

func ZZ_C02_dbiter2()      { zzDBIterWalk(comparer.DefaultComparer, 2) }
func ZZ_C02_dbiter3()      { zzDBIterWalk(comparer.DefaultComparer, 3) }
func ZZ_C02_dbiter4()      { zzDBIterWalk(comparer.DefaultComparer, 4) }
func ZZ_C02_dbiter5()      { zzDBIterWalk(comparer.DefaultComparer, 5) }
func ZZ_C02_dbiter3_rank() { zzDBIterWalk(zzRankCmp{sepLen: 1}, 3) }
func ZZ_C02_dbiter2_rev()  { zzDBIterWalk(zzRevCmp{}, 2) }
func ZZ_C02_dbiter3_rev()  { zzDBIterWalk(zzRevCmp{}, 3) }

func ZZ_C02_dbiter_witness() {
	zzDBIterWalk(comparer.DefaultComparer, 2)
	vpAssert(false, "witness")
}
