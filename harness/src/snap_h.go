package leveldb

// C03-minseq: the sequence below which compaction may drop hidden entries is
// never newer than any unreleased snapshot nor than the DB's own sequence;
// releasing a snapshot leaves the others intact; double release is harmless.

import "container/list"

func ZZ_C03_minseq() {
	db := &DB{snapsList: list.New()}
	s0 := vpNondetU64()
	vpAssume(s0 < 1<<50)
	db.setSeq(s0)
	var snaps []*Snapshot
	var seqs []uint64
	var live []bool
	for step := 0; step < zzSnapOps; step++ {
		switch vpChoose(3) {
		case 0:
			sn := db.newSnapshot()
			snaps = append(snaps, sn)
			seqs = append(seqs, db.getSeq())
			live = append(live, true)
			vpAssert(sn.elem.seq == db.getSeq(), "snapshot-at-current-seq")
		case 1:
			if len(snaps) == 0 {
				vpAssume(false)
			}
			i := vpChoose(len(snaps))
			snaps[i].Release() // possibly a second time
			live[i] = false
		default:
			d := vpNondetU64()
			vpAssume(d < 1<<40)
			db.addSeq(d)
		}
		// minSeq = oldest live snapshot, else the DB sequence
		m := db.minSeq()
		vpAssert(m <= db.getSeq(), "minseq-le-dbseq")
		any := false
		for i := range snaps {
			if live[i] {
				any = true
				vpAssert(m <= seqs[i], "minseq-le-every-live-snapshot")
				vpAssert(snaps[i].elem != nil && snaps[i].elem.seq == seqs[i], "live-snapshot-keeps-its-seq")
			}
		}
		if !any {
			vpAssert(m == db.getSeq(), "minseq-is-dbseq-without-snapshots")
			vpAssert(db.snapsList.Len() == 0, "list-empty-without-snapshots")
		}
	}
}
