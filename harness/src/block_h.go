package table

// C13 (Tier A): a block produced by the real blockWriter and read through the
// real block/blockIter code behaves like a cursor over the sorted entry list,
// for every restart interval, range slice and movement sequence.

import (
	"bytes"
	"encoding/binary"

	"github.com/syndtr/goleveldb/leveldb/comparer"
	"github.com/syndtr/goleveldb/leveldb/util"
)

func zzKB(minLen, maxLen int) []byte {
	n := minLen + vpChoose(maxLen-minLen+1)
	b := make([]byte, n)
	for i := range b {
		b[i] = vpNondetU8()
	}
	return b
}

// zzMakeBlock writes n strictly increasing entries with the real blockWriter
// and wraps the bytes the way Reader.readBlock does.
func zzMakeBlock(n, restartInterval int) (*block, [][]byte, [][]byte) {
	w := &blockWriter{restartInterval: restartInterval, scratch: make([]byte, 50)}
	var K, V [][]byte
	for i := 0; i < n; i++ {
		k := zzKB(zzMinKey, zzMaxKey)
		if i > 0 {
			vpAssume(bytes.Compare(K[i-1], k) < 0)
		}
		v := zzKB(0, zzMaxVal)
		vpAssert(w.append(k, v) == nil, "append-ok")
		K = append(K, k)
		V = append(V, v)
	}
	w.finish()
	data := append([]byte(nil), w.buf.Bytes()...)
	restartsLen := int(binary.LittleEndian.Uint32(data[len(data)-4:]))
	b := &block{data: data, restartsLen: restartsLen, restartsOffset: len(data) - (restartsLen+1)*4}
	return b, K, V
}

func zzBlockWalk(n int) {
	ri := 1 + vpChoose(zzMaxRestart)
	b, K0, V0 := zzMakeBlock(n, ri)
	r := &Reader{cmp: comparer.DefaultComparer}
	var rg *util.Range
	inclLimit := false
	switch vpChoose(4) {
	case 0:
	case 1:
		rg = &util.Range{Start: zzKB(0, zzMaxKey)}
	case 2:
		rg = &util.Range{Limit: zzKB(0, zzMaxKey)}
		inclLimit = vpChoose(2) == 1
	default:
		rg = &util.Range{Start: zzKB(0, zzMaxKey), Limit: zzKB(0, zzMaxKey)}
		inclLimit = vpChoose(2) == 1
		// the table layer only hands out ranges with Start <= Limit (util.Range contract)
		vpAssume(bytes.Compare(rg.Start, rg.Limit) <= 0)
	}
	// oracle list
	var K, V [][]byte
	pastLimit := false
	for i := range K0 {
		if rg != nil && rg.Start != nil && bytes.Compare(K0[i], rg.Start) < 0 {
			continue
		}
		if rg != nil && rg.Limit != nil && bytes.Compare(K0[i], rg.Limit) >= 0 {
			if !inclLimit || pastLimit {
				continue
			}
			pastLimit = true // the first entry >= Limit is included (index blocks)
		}
		K = append(K, K0[i])
		V = append(V, V0[i])
	}
	m := len(K)
	it := r.newBlockIter(b, nil, rg, inclLimit)
	vpAssert(it.Error() == nil, "no-error-on-create")
	p := -1
	for step := 0; step < zzMoves; step++ {
		var ok bool
		switch vpChoose(5) {
		case 0:
			ok = it.First()
			p = 0
		case 1:
			ok = it.Last()
			p = m - 1
		case 2:
			ok = it.Next()
			if p < m {
				p++
			}
		case 3:
			ok = it.Prev()
			if p > -1 {
				p--
			}
		default:
			sk := zzKB(0, zzMaxKey)
			ok = it.Seek(sk)
			p = m
			for i := range K {
				if bytes.Compare(K[i], sk) >= 0 {
					p = i
					break
				}
			}
		}
		valid := p >= 0 && p < m
		vpAssert(it.Error() == nil, "no-error")
		vpAssert(ok == valid, "move-result")
		vpAssert(it.Valid() == valid, "valid")
		if valid {
			vpAssert(len(it.Key()) == len(K[p]) && vpEqBytes(it.Key(), K[p]), "iter-key")
			vpAssert(len(it.Value()) == len(V[p]) && vpEqBytes(it.Value(), V[p]), "iter-value")
		} else {
			vpAssert(it.Key() == nil && it.Value() == nil, "iter-nil-when-invalid")
		}
	}
	it.Release()
	vpAssert(!it.Next() && it.Error() == ErrIterReleased, "released")
}

func ZZ_C13_block1() { zzBlockWalk(1) }
func ZZ_C13_block2() { zzBlockWalk(2) }
func ZZ_C13_block3() { zzBlockWalk(3) }
func ZZ_C13_block4() { zzBlockWalk(4) }

func ZZ_C13_block_witness() {
	zzBlockWalk(2)
	vpAssert(false, "witness")
}

// ---- restart array arithmetic for offsets of any 32-bit magnitude ----
// (blocks larger than the bound cannot be built byte by byte, but the restart
// array is read by restartIndex/restartOffset alone: its entries are free
// 32-bit values here, so big blocks are covered for this arithmetic)
func ZZ_C13_restartindex() {
	n := 2 + vpChoose(3)
	data := make([]byte, 4*n+4)
	offs := make([]uint32, n)
	for i := 0; i < n; i++ {
		offs[i] = vpNondetU32()
		if i == 0 {
			vpAssume(offs[0] == 0) // the first restart point is the start of the block
		} else {
			vpAssume(offs[i-1] < offs[i])
		}
		binary.LittleEndian.PutUint32(data[4*i:], offs[i])
	}
	vpAssume(offs[n-1] < 1<<31)
	binary.LittleEndian.PutUint32(data[4*n:], uint32(n))
	b := &block{data: data, restartsLen: n, restartsOffset: 0}
	for i := 0; i < n; i++ {
		vpAssert(b.restartOffset(i) == int(offs[i]), "restart-offset-decoded")
	}
	off := int(vpNondetU32())
	vpAssume(off < 1<<31)
	r := b.restartIndex(0, n, off)
	// r = index of the last restart point at or before off
	want := -1
	for i := 0; i < n; i++ {
		want = vpIteInt(int(offs[i]) <= off, i, want)
	}
	vpAssert(r == want, "restart-index-is-last-restart-at-or-before-offset")
}
