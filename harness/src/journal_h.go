package journal

// C12: journal framing round-trips and contains damage. blockSize is re-scaled
// by a one-line source rewrite (see the suite file); everything else is the
// working tree's code.

import (
	"io"
)

type zzSink struct {
	data    []byte
	flushes int
}

func (s *zzSink) Write(p []byte) (int, error) { s.data = append(s.data, p...); return len(p), nil }
func (s *zzSink) Flush() error                { s.flushes++; return nil }

// zzSrc delivers the stream in pieces of at most step bytes (short reads).
type zzSrc struct {
	data []byte
	pos  int
	step int
}

func (s *zzSrc) Read(p []byte) (int, error) {
	if s.pos >= len(s.data) {
		return 0, io.EOF
	}
	n := len(p)
	if s.step > 0 && n > s.step {
		n = s.step
	}
	n = copy(p[:n], s.data[s.pos:])
	s.pos += n
	return n, nil
}

type zzDrop struct{ n int }

func (d *zzDrop) Drop(err error) { d.n++ }

type zzRec struct {
	data       []byte
	start, end int // stream offsets of the first header byte / one past the last payload byte
}

// zzWrite writes m records (lengths 0..zzLmax, free bytes, optional flushes,
// optional two-piece writes) through the real Writer.
func zzWrite(m int, opts bool) ([]byte, []zzRec) {
	sink := &zzSink{}
	w := NewWriter(sink)
	recs := make([]zzRec, m)
	for i := 0; i < m; i++ {
		n := vpChoose(zzLmax + 1)
		b := make([]byte, n)
		for k := range b {
			b[k] = vpNondetU8()
		}
		ww, err := w.Next()
		vpAssert(err == nil, "writer-next-ok")
		recs[i].start = int(w.blockNumber)*blockSize + w.i
		if opts && (m == 1 || i == m-1) && n >= 2 && vpChoose(2) == 1 {
			// two-piece write; all cut points for a single record, otherwise the
			// first, the last and the one that exactly fills the current block
			var cut int
			if m == 1 {
				cut = 1 + vpChoose(n-1)
			} else {
				fill := blockSize - w.j
				switch vpChoose(3) {
				case 0:
					cut = 1
				case 1:
					cut = n - 1
				default:
					if fill <= 0 || fill >= n {
						vpAssume(false)
					}
					cut = fill
				}
			}
			k1, e1 := ww.Write(b[:cut])
			k2, e2 := ww.Write(b[cut:])
			vpAssert(e1 == nil && e2 == nil && k1+k2 == n, "writer-write-ok")
		} else {
			k, e := ww.Write(b)
			vpAssert(e == nil && k == n, "writer-write-ok")
		}
		recs[i].data = b
		recs[i].end = int(w.blockNumber)*blockSize + w.j
		if opts && vpChoose(2) == 1 {
			vpAssert(w.Flush() == nil, "writer-flush-ok")
			vpAssert(w.Size() == int64(len(sink.data)), "size-equals-stream-after-flush")
		}
	}
	vpAssert(w.Close() == nil, "writer-close-ok")
	vpAssert(w.Size() == int64(len(sink.data)), "size-equals-stream-after-close")
	return sink.data, recs
}

func zzReadAll(r io.Reader) ([]byte, error) {
	var out []byte
	buf := make([]byte, 5)
	for {
		n, err := r.Read(buf)
		out = append(out, buf[:n]...)
		if err == io.EOF {
			return out, nil
		}
		if err != nil {
			return out, err
		}
	}
}

func zzRoundTrip(m int) {
	stream, recs := zzWrite(m, true)
	strict := vpChoose(2) == 1
	step := 0
	if strict {
		step = 5
	}
	d := &zzDrop{}
	r := NewReader(&zzSrc{data: stream, step: step}, d, strict, true)
	for i := 0; i < m; i++ {
		rr, err := r.Next()
		vpAssert(err == nil, "reader-next-ok")
		got, err := zzReadAll(rr)
		vpAssert(err == nil, "reader-read-ok")
		vpAssert(len(got) == len(recs[i].data), "record-length")
		vpAssert(vpEqBytes(got, recs[i].data), "record-content")
	}
	_, err := r.Next()
	vpAssert(err == io.EOF, "eof-after-last")
	vpAssert(d.n == 0, "nothing-dropped")
}

func ZZ_C12_rt1() { zzRoundTrip(1) }
func ZZ_C12_rt2() { zzRoundTrip(2) }
func ZZ_C12_rt3() { zzRoundTrip(3) }

func ZZ_C12_rt_witness() {
	zzRoundTrip(1)
	vpAssert(false, "witness")
}

// ---- damage ----

// zzReadBack runs the reader over a (damaged) stream and checks that what it
// yields is a subsequence of the original records. It returns which records
// were yielded completely, whether the run ended with io.EOF, and whether it
// ended with another error.
func zzReadBack(stream []byte, recs []zzRec, strict bool) (yielded []bool, sawErr bool) {
	m := len(recs)
	yielded = make([]bool, m)
	src := &zzSrc{data: stream}
	r := NewReader(src, &zzDrop{}, strict, true)
	last := -1
	for iter := 0; iter < m+3; iter++ {
		rr, err := r.Next()
		if err == io.EOF {
			return yielded, sawErr
		}
		if err != nil {
			vpAssert(strict, "tolerant-next-never-errors")
			sawErr = true
			// strict: the error is sticky, nothing more is yielded
			_, err2 := r.Next()
			vpAssert(err2 != nil, "strict-error-sticky")
			return yielded, sawErr
		}
		// which original record is this? identify it by the stream offset of
		// its first chunk (contents may coincide between records)
		off := src.pos - r.n + r.i - headerSize
		found := -1
		for i := range recs {
			if recs[i].start == off {
				found = i
			}
		}
		got, err := zzReadAll(rr)
		if err != nil {
			// incomplete record (a later chunk was lost): not yielded
			if strict {
				sawErr = true
			}
			continue
		}
		// nothing invented, order kept
		vpAssert(found > last, "yielded-record-starts-where-an-original-started-in-order")
		if found < 0 {
			return yielded, sawErr
		}
		vpAssert(len(got) == len(recs[found].data) && vpEqBytes(got, recs[found].data), "yielded-record-content-is-original")
		yielded[found] = true
		last = found
	}
	vpAssert(false, "reader-terminates")
	return yielded, sawErr
}

func zzDamageByte(m int) {
	stream, recs := zzWrite(m, false)
	if len(stream) == 0 {
		return
	}
	d := vpChoose(len(stream))
	v := vpNondetU8()
	vpAssume(v != stream[d])
	dmg := append([]byte(nil), stream...)
	dmg[d] = v
	strict := vpChoose(2) == 1
	yielded, sawErr := zzReadBack(dmg, recs, strict)
	db := d / blockSize
	if !strict {
		// tolerant: every record that does not touch the damaged block is yielded
		for i := range recs {
			touches := recs[i].start/blockSize <= db && db <= (recs[i].end-1)/blockSize
			vpAssert(yielded[i] || touches, "tolerant-loses-only-damaged-block")
		}
	} else {
		// strict: records entirely before the damaged byte are yielded; a record
		// containing the damaged byte is never yielded; yielded ones are a prefix
		seenMissing := false
		for i := range recs {
			if recs[i].end <= d {
				vpAssert(yielded[i], "strict-yields-records-before-damage")
			}
			if recs[i].start <= d && d < recs[i].end {
				vpAssert(!yielded[i], "damaged-record-not-yielded")
				vpAssert(sawErr, "strict-reports-corruption")
			}
			if !yielded[i] {
				seenMissing = true
			} else {
				vpAssert(!seenMissing, "strict-yields-a-prefix")
			}
		}
	}
}

func ZZ_C12_dmg_byte1() { zzDamageByte(1) }
func ZZ_C12_dmg_byte2() { zzDamageByte(2) }
func ZZ_C12_dmg_byte3() { zzDamageByte(3) }

func zzDamageCut(m int) {
	stream, recs := zzWrite(m, false)
	c := vpChoose(len(stream) + 1)
	// the cut may be followed by fill bytes (zero padding of a preallocated
	// file, or 0xff). Arbitrary garbage is not modelled: bytes that happen to
	// form a correctly checksummed chunk are indistinguishable from a record.
	g := vpChoose(zzGarbage + 1)
	fill := byte(0)
	if g > 0 && vpChoose(2) == 1 {
		fill = 0xff
	}
	dmg := append([]byte(nil), stream[:c]...)
	for k := 0; k < g; k++ {
		dmg = append(dmg, fill)
	}
	strict := vpChoose(2) == 1
	yielded, _ := zzReadBack(dmg, recs, strict)
	cb := c / blockSize
	seenMissing := false
	for i := range recs {
		if !strict {
			// lost only if it reaches into the block that contains the cut or beyond
			touches := (recs[i].end-1)/blockSize >= cb || recs[i].end > c
			vpAssert(yielded[i] || touches, "tolerant-cut-loses-only-tail")
		} else {
			if recs[i].end <= c && (recs[i].end-1)/blockSize < cb {
				vpAssert(yielded[i], "strict-cut-yields-records-before-cut-block")
			}
			if !yielded[i] {
				seenMissing = true
			} else {
				vpAssert(!seenMissing, "strict-cut-yields-a-prefix")
			}
		}
		if recs[i].end > c && g == 0 {
			vpAssert(!yielded[i], "cut-record-not-yielded")
		}
	}
}

func ZZ_C12_dmg_cut1() { zzDamageCut(1) }
func ZZ_C12_dmg_cut2() { zzDamageCut(2) }
func ZZ_C12_dmg_cut3() { zzDamageCut(3) }
