package leveldb

// Harnesses for C15: internal key order and index-key shortening.
// Executed symbolically by symgo (vp* are engine primitives) and compiled
// natively for witness replay.

import (
	"github.com/syndtr/goleveldb/leveldb/comparer"
)

func zzBytes(maxLen int) []byte {
	n := vpChoose(maxLen + 1)
	b := make([]byte, n)
	for i := range b {
		b[i] = vpNondetU8()
	}
	return b
}

func zzSeq() uint64 {
	s := vpNondetU64()
	vpAssume(s <= keyMaxSeq)
	return s
}

func zzKT() keyType {
	return keyType(vpIteU64(vpNondetBool(), uint64(keyTypeVal), uint64(keyTypeDel)))
}

func zzSign(x int) int {
	return vpIteInt(x < 0, -1, vpIteInt(x > 0, 1, 0))
}

// ---- comparers under test ----

// zzRevCmp: reverse bytewise order among non-empty keys; the empty key stays
// the smallest, as the comparer contract demands ("the empty slice must be
// 'less than' any non-empty slice").
type zzRevCmp struct{}

func (zzRevCmp) Compare(a, b []byte) int {
	if len(a) == 0 || len(b) == 0 {
		return comparer.DefaultComparer.Compare(a, b)
	}
	return comparer.DefaultComparer.Compare(b, a)
}
func (zzRevCmp) Name() string                      { return "zz.rev" }
func (zzRevCmp) Separator(dst, a, b []byte) []byte { return nil }
func (zzRevCmp) Successor(dst, b []byte) []byte    { return nil }

// zzRankCmp: the order is given by an injective uninterpreted rank, so every
// total order on the strings in play is covered. Separator/Successor return
// nil or an arbitrary string constrained only by the documented contract.
type zzRankCmp struct{ sepLen int }

func (zzRankCmp) Compare(a, b []byte) int {
	ra, rb := vpRank(a), vpRank(b)
	return vpIteInt(ra < rb, -1, vpIteInt(ra > rb, 1, 0))
}
func (zzRankCmp) Name() string { return "zz.rank" }
func (c zzRankCmp) Separator(dst, a, b []byte) []byte {
	if vpNondetBool() {
		return nil
	}
	x := zzBytes(c.sepLen)
	// contract: a <= x < b (only asked when a < b)
	vpAssume(c.Compare(a, x) <= 0)
	vpAssume(c.Compare(x, b) < 0)
	return append(dst, x...)
}
func (c zzRankCmp) Successor(dst, b []byte) []byte {
	if vpNondetBool() {
		return nil
	}
	x := zzBytes(c.sepLen)
	vpAssume(c.Compare(x, b) >= 0)
	return append(dst, x...)
}

func zzCmp(which int) comparer.Comparer {
	switch which {
	case 0:
		return comparer.DefaultComparer
	case 1:
		return zzRevCmp{}
	}
	return zzRankCmp{sepLen: zzKeyLen}
}

func zzOrder(ucmp comparer.Comparer) {
	icmp := &iComparer{ucmp}
	a, b, c := zzBytes(zzKeyLen), zzBytes(zzKeyLen), zzBytes(zzKeyLen)
	sa, sb, sc := zzSeq(), zzSeq(), zzSeq()
	ka, kb, kc := zzKT(), zzKT(), zzKT()
	x := makeInternalKey(nil, a, sa, ka)
	y := makeInternalKey(nil, b, sb, kb)
	z := makeInternalKey(nil, c, sc, kc)

	// round trip
	u, s, k, err := parseInternalKey(x)
	vpAssert(err == nil, "parse-ok")
	vpAssert(vpAnd(vpEqBytes(u, a), vpAnd(s == sa, k == ka)), "parse-roundtrip")

	cxy := icmp.Compare(x, y)
	cyx := icmp.Compare(y, x)
	cyz := icmp.Compare(y, z)
	cxz := icmp.Compare(x, z)
	vpAssert(zzSign(cxy) == -zzSign(cyx), "antisym")
	vpAssert((cxy == 0) == vpEqBytes(x, y), "eq-iff-identical")
	vpAssert(vpImplies(vpAnd(cxy < 0, cyz < 0), cxz < 0), "trans-lt")
	vpAssert(vpImplies(vpAnd(cxy <= 0, cyz <= 0), cxz <= 0), "trans-le")
	// definition: user key ascending, then number descending
	uc := ucmp.Compare(a, b)
	nx, ny := (sa<<8)|uint64(ka), (sb<<8)|uint64(kb)
	vpAssert((cxy < 0) == vpOr(uc < 0, vpAnd(uc == 0, nx > ny)), "definition")

	// probe placement: the probe for (a, sa) sorts at or before an entry of a
	// exactly when that entry is not newer than sa, and by user key otherwise.
	p := makeInternalKey(nil, a, sa, keyTypeSeek)
	e := makeInternalKey(nil, a, sb, kb)
	vpAssert((icmp.Compare(p, e) <= 0) == (sb <= sa), "probe-same-key")
	cpy := icmp.Compare(p, y)
	vpAssert(vpImplies(uc != 0, (cpy < 0) == (uc < 0)), "probe-other-key")
}

func ZZ_C15_order_bytewise() { zzOrder(zzCmp(0)) }
func ZZ_C15_order_reverse()  { zzOrder(zzCmp(1)) }
func ZZ_C15_order_rank()     { zzOrder(zzCmp(2)) }

// reachability twin
func ZZ_C15_order_witness() {
	zzOrder(zzCmp(0))
	vpAssert(false, "witness")
}

func zzCopy(b []byte) []byte { return append([]byte(nil), b...) }

func zzSep(ucmp comparer.Comparer) {
	icmp := &iComparer{ucmp}
	a, b := zzBytes(zzKeyLen), zzBytes(zzKeyLen)
	sa, sb := zzSeq(), zzSeq()
	x := makeInternalKey(nil, a, sa, zzKT())
	y := makeInternalKey(nil, b, sb, zzKT())
	vpAssume(icmp.Compare(x, y) < 0)
	x0, y0 := zzCopy(x), zzCopy(y)
	pre := zzBytes(1)
	pre0 := zzCopy(pre)
	r := icmp.Separator(pre, x, y)
	vpAssert(vpEqBytes(x, x0), "sep-a-unmodified")
	vpAssert(vpEqBytes(y, y0), "sep-b-unmodified")
	if r != nil {
		vpAssert(len(r) >= len(pre0)+8, "sep-len")
		vpAssert(vpEqBytes(r[:len(pre0)], pre0), "sep-dst-prefix-kept")
		k := r[len(pre0):]
		vpAssert(icmp.Compare(x, k) <= 0, "sep-ge-a")
		vpAssert(icmp.Compare(k, y) < 0, "sep-lt-b")
	}
	// successor of y
	r2 := icmp.Successor(nil, y)
	vpAssert(vpEqBytes(y, y0), "succ-b-unmodified")
	if r2 != nil {
		vpAssert(len(r2) >= 8, "succ-len")
		vpAssert(icmp.Compare(r2, y) >= 0, "succ-ge-b")
	}
}

func ZZ_C15_sep_bytewise() { zzSep(zzCmp(0)) }
func ZZ_C15_sep_reverse()  { zzSep(zzCmp(1)) }
func ZZ_C15_sep_rank()     { zzSep(zzCmp(2)) }

// user-level law directly on the built-in comparer
func ZZ_C15_usersep() {
	c := comparer.DefaultComparer
	a, b := zzBytes(zzKeyLen), zzBytes(zzKeyLen)
	vpAssume(c.Compare(a, b) < 0)
	a0, b0 := zzCopy(a), zzCopy(b)
	r := c.Separator(nil, a, b)
	if r != nil {
		vpAssert(c.Compare(a, r) <= 0, "usep-ge-a")
		vpAssert(c.Compare(r, b) < 0, "usep-lt-b")
	}
	r2 := c.Successor(nil, b)
	if r2 != nil {
		vpAssert(c.Compare(r2, b) >= 0, "usucc-ge-b")
	}
	vpAssert(vpAnd(vpEqBytes(a, a0), vpEqBytes(b, b0)), "usep-args-unmodified")
}
