package leveldb

// C01-get (also C03-read, C11-vis): DB.get/has over an arbitrary well-formed
// layout (write buffer, frozen buffer, level-0 files, deeper levels) returns
// what a reader at that sequence must see: the newest entry of the key not
// newer than the reader, or not-found. Table lookups are summarised by their
// contract (first entry >= key of that file), which C13 establishes for the
// real table reader.

import (
	"github.com/syndtr/goleveldb/leveldb/memdb"
	"github.com/syndtr/goleveldb/leveldb/opt"
	"github.com/syndtr/goleveldb/leveldb/storage"
)

var zzFileEnts = map[*tFile][]zzEnt{}
var zzFileOrder []*tFile

func (t *tOps) find(f *tFile, key []byte, ro *opt.ReadOptions) (rkey, rvalue []byte, err error) {
	ents := zzFileEnts[f]
	for i := range ents {
		ik := makeInternalKey(nil, ents[i].u, ents[i].seq, ents[i].kt)
		if t.s.icmp.Compare(ik, key) >= 0 {
			return ik, ents[i].v, nil
		}
	}
	return nil, nil, ErrNotFound
}

func (t *tOps) findKey(f *tFile, key []byte, ro *opt.ReadOptions) (rkey []byte, err error) {
	rkey, _, err = t.find(f, key, ro)
	return
}

// all entries created so far, with a depth rank: smaller = shallower = must be newer
type zzPlaced struct {
	e     zzEnt
	depth int
}

var zzAll []zzPlaced

// sequence numbers from a small domain: only their order matters to the code
// under test here (the 56-bit encoding is C15's subject)
func zzSmallSeq() uint64 {
	s := vpNondetU64()
	vpAssume(s < zzSeqDom)
	return s
}

func zzNewEnt(depth int) zzEnt {
	e := zzEnt{u: []byte{vpNondetU8()}, seq: zzSmallSeq(), kt: zzKT(), v: []byte{vpNondetU8()}}
	vpAssume(e.u[0] < zzKeyDom) // a small key domain: what matters is which entries share a user key
	for _, p := range zzAll {
		same := p.e.u[0] == e.u[0]
		// one sequence number per write
		vpAssume(vpImplies(same, p.e.seq != e.seq))
		// LSM invariant: shallower is newer
		if p.depth < depth {
			vpAssume(vpImplies(same, p.e.seq > e.seq))
		} else if p.depth > depth {
			vpAssume(vpImplies(same, p.e.seq < e.seq))
		}
	}
	zzAll = append(zzAll, zzPlaced{e, depth})
	return e
}

func zzMem(icmp *iComparer, depth, n int) *memdb.DB {
	m := memdb.New(icmp, 0)
	for i := 0; i < n; i++ {
		e := zzNewEnt(depth)
		m.Put(makeInternalKey(nil, e.u, e.seq, e.kt), e.v)
	}
	return m
}

// a table file with n >= 1 entries, strictly sorted
func zzTable(icmp *iComparer, depth int, num int64, n int) *tFile {
	var ents []zzEnt
	var keys []internalKey
	for i := 0; i < n; i++ {
		e := zzNewEnt(depth)
		ik := makeInternalKey(nil, e.u, e.seq, e.kt)
		if i > 0 {
			vpAssume(icmp.Compare(keys[i-1], ik) < 0)
		}
		ents = append(ents, e)
		keys = append(keys, ik)
	}
	f := &tFile{fd: storage.FileDesc{Type: storage.TypeTable, Num: num}, size: 1, seekLeft: 100, imin: keys[0], imax: keys[n-1]}
	zzFileEnts[f] = ents
	return f
}

func zzSortedTables(icmp *iComparer, depth int, base int64, nfiles, per int) tFiles {
	var fs tFiles
	for i := 0; i < nfiles; i++ {
		f := zzTable(icmp, depth, base+int64(i), 1+vpChoose(per))
		if i > 0 {
			vpAssume(icmp.uCompare(fs[i-1].imax.ukey(), f.imin.ukey()) < 0)
		}
		fs = append(fs, f)
	}
	return fs
}

func ZZ_C01_get() {
	zzFileEnts = map[*tFile][]zzEnt{}
	zzAll = nil
	s := &session{stor: newIStorage(storage.NewMemStorage())}
	s.setOptions(&opt.Options{})
	s.tops = &tOps{s: s}
	icmp := s.icmp
	db := &DB{s: s}
	// depth ranks: 0 mem, 1 frozen mem, 2.. level-0 files (newest first), then levels 1, 2
	db.mem = &memDB{db: db, DB: zzMem(icmp, 0, vpChoose(zzMemEnts+1)), ref: 1}
	if vpChoose(2) == 1 {
		db.frozenMem = &memDB{db: db, DB: zzMem(icmp, 1, 1+vpChoose(zzMemEnts)), ref: 1}
	}
	n0 := vpChoose(zzL0Files + 1)
	var l0 tFiles
	for i := 0; i < n0; i++ {
		l0 = append(l0, zzTable(icmp, 2+i, int64(20-i), 1+vpChoose(zzPerFile)))
	}
	l1 := zzSortedTables(icmp, 10, 30, vpChoose(zzL1Files+1), zzPerFile)
	l2 := zzSortedTables(icmp, 11, 40, vpChoose(2), zzPerFile)
	v := &version{s: s, levels: []tFiles{l0, l1, l2}, ref: 1}
	s.stVersion = v

	key := []byte{vpNondetU8()}
	vpAssume(key[0] < zzKeyDom)
	seq := zzSmallSeq()
	val, err := db.get(nil, nil, key, seq, nil)
	has, herr := db.has(nil, nil, key, seq, nil)

	// specification: newest entry of key with seq' <= seq, over everything
	found, isVal, best, bval := false, false, uint64(0), byte(0)
	for _, p := range zzAll {
		m := vpAnd(p.e.u[0] == key[0], p.e.seq <= seq)
		better := vpAnd(m, vpOr(!found, p.e.seq > best))
		best = vpIteU64(better, p.e.seq, best)
		isVal = vpOr(vpAnd(better, p.e.kt == keyTypeVal), vpAnd(!better, isVal))
		bval = vpIteU8(better, p.e.v[0], bval)
		found = vpOr(found, m)
	}
	want := vpAnd(found, isVal)
	vpAssert(err == nil || err == ErrNotFound, "get-error-kind")
	vpAssert((err == nil) == want, "get-presence")
	if err == nil {
		vpAssert(len(val) == 1 && val[0] == bval, "get-value")
	}
	vpAssert(herr == nil, "has-no-error")
	vpAssert(has == (err == nil), "has-iff-get-succeeds")
	vpAssert(v.ref == 1 && db.mem.ref == 1, "references-balanced")
}

func ZZ_C01_get_witness() {
	ZZ_C01_get()
	vpAssert(false, "witness")
}


// C11-vis: reads through a transaction see its own writes (write buffer and
// flushed tables of the transaction) layered over the DB state at its start;
// everyone else sees none of them.
func zzSpec(key byte, seq uint64, maxDepth int) (bool, byte) {
	found, isVal, best, bval := false, false, uint64(0), byte(0)
	for _, p := range zzAll {
		if p.depth > maxDepth {
			continue
		}
		m := vpAnd(p.e.u[0] == key, p.e.seq <= seq)
		better := vpAnd(m, vpOr(!found, p.e.seq > best))
		best = vpIteU64(better, p.e.seq, best)
		isVal = vpOr(vpAnd(better, p.e.kt == keyTypeVal), vpAnd(!better, isVal))
		bval = vpIteU8(better, p.e.v[0], bval)
		found = vpOr(found, m)
	}
	return vpAnd(found, isVal), bval
}

func ZZ_C11_vis() {
	zzFileEnts = map[*tFile][]zzEnt{}
	zzAll = nil
	s := &session{stor: newIStorage(storage.NewMemStorage())}
	s.setOptions(&opt.Options{})
	s.tops = &tOps{s: s}
	icmp := s.icmp
	db := &DB{s: s}
	// the transaction's own data: depth 0 (its buffer) and 1 (a table it flushed)
	trMem := zzMem(icmp, 0, vpChoose(zzMemEnts+1))
	var trTables tFiles
	if vpChoose(2) == 1 {
		trTables = append(trTables, zzTable(icmp, 1, 60, 1))
	}
	nTr := len(zzAll)
	// the DB: its write buffer is empty and no frozen buffer is pending while a
	// transaction is open (OpenTransaction's postcondition, checked by
	// ZZ_C11_open; other writers are locked out) — so depth 3 (level-0 file), 10 (level 1)
	db.mem = &memDB{db: db, DB: zzMem(icmp, 2, 0), ref: 1}
	var l0 tFiles
	if vpChoose(2) == 1 {
		l0 = append(l0, zzTable(icmp, 3, 20, 1))
	}
	l1 := zzSortedTables(icmp, 10, 30, vpChoose(2), 1)
	v := &version{s: s, levels: []tFiles{l0, l1}, ref: 1}
	s.stVersion = v
	// the DB sequence when the transaction started: base entries are not newer, transaction entries are
	dbSeq := zzSmallSeq()
	trSeq := zzSmallSeq()
	vpAssume(dbSeq <= trSeq)
	for i, p := range zzAll {
		if i < nTr {
			vpAssume(vpAnd(p.e.seq > dbSeq, p.e.seq <= trSeq))
		} else {
			vpAssume(p.e.seq <= dbSeq)
		}
	}
	key := []byte{vpNondetU8()}
	vpAssume(key[0] < zzKeyDom)
	// through the transaction
	val, err := db.get(trMem, trTables, key, trSeq, nil)
	want, wv := zzSpec(key[0], trSeq, 1000)
	vpAssert((err == nil) == want, "transaction-sees-own-writes-over-base")
	if err == nil {
		vpAssert(len(val) == 1 && val[0] == wv, "transaction-read-value")
	}
	// everyone else, now and at any snapshot taken before the commit
	val2, err2 := db.get(nil, nil, key, dbSeq, nil)
	want2, wv2 := zzSpec(key[0], dbSeq, 1000)
	vpAssert((err2 == nil) == want2, "others-see-base-only")
	if err2 == nil {
		vpAssert(len(val2) == 1 && val2[0] == wv2, "others-read-value")
	}
}
