package leveldb

// C07-sweep: the start-up sweep (DB.checkAndCleanFiles) over an arbitrary
// storage listing: it never removes a table of the current version, the
// current or a newer manifest, or a journal at or after the one still needed
// (the frozen journal if there is one); every other manifest, journal and
// table and every temporary file in the listing is removed exactly once; and when a live table is missing it reports corruption and removes
// nothing.

import (
	"github.com/syndtr/goleveldb/leveldb/errors"
	"github.com/syndtr/goleveldb/leveldb/storage"
)

type zzListStor struct {
	storage.Storage
	list    []storage.FileDesc
	removed []storage.FileDesc
}

func (s *zzListStor) List(ft storage.FileType) ([]storage.FileDesc, error) {
	var out []storage.FileDesc
	for _, fd := range s.list {
		if fd.Type&ft != 0 {
			out = append(out, fd)
		}
	}
	return out, nil
}

func (s *zzListStor) Remove(fd storage.FileDesc) error {
	s.removed = append(s.removed, fd)
	return nil
}

func ZZ_C07_sweep() {
	st := &zzListStor{Storage: storage.NewMemStorage()}
	s := zzSession(st, 64<<20)
	// current version: zzSweepLive tables with distinct numbers on levels 0/1
	rec := &sessionRecord{}
	var live []int64
	for i := 0; i < zzSweepLive; i++ {
		n := int64(vpNondetU8())
		vpAssume(n < zzSweepNums)
		for _, m := range live {
			vpAssume(m != n)
		}
		live = append(live, n)
		k := []byte{byte('a' + i)}
		rec.addTableFile(vpChoose(2), zzNumFile(n, k, k))
	}
	nv := s.stVersion.spawn(rec, false)
	s.setVersion(rec, nv)
	db := &DB{s: s}
	num := func() int64 {
		n := int64(vpNondetU8())
		vpAssume(n < zzSweepNums)
		return n
	}
	s.manifestFd = storage.FileDesc{Type: storage.TypeManifest, Num: num()}
	db.journalFd = storage.FileDesc{Type: storage.TypeJournal, Num: num()}
	if vpChoose(2) == 1 {
		db.frozenJournalFd = storage.FileDesc{Type: storage.TypeJournal, Num: num()}
		vpAssume(db.frozenJournalFd.Num < db.journalFd.Num)
	}
	// arbitrary listing (distinct descriptors)
	types := []storage.FileType{storage.TypeManifest, storage.TypeJournal, storage.TypeTable, storage.TypeTemp}
	// the live tables are listed, except possibly one (a missing table); the
	// rest of the listing is arbitrary, in any position relative to them
	miss := vpChoose(zzSweepLive+1) - 1
	for i, n := range live {
		if i != miss {
			st.list = append(st.list, storage.FileDesc{Type: storage.TypeTable, Num: n})
		}
	}
	nl := vpChoose(zzSweepList + 1)
	for i := 0; i < nl; i++ {
		fd := storage.FileDesc{Type: types[vpChoose(len(types))], Num: int64(vpNondetU8())}
		vpAssume(fd.Num < zzSweepNums)
		for _, o := range st.list {
			vpAssume(!(o.Type == fd.Type && o.Num == fd.Num))
		}
		if vpChoose(2) == 1 {
			st.list = append([]storage.FileDesc{fd}, st.list...)
		} else {
			st.list = append(st.list, fd)
		}
	}
	needed := func(fd storage.FileDesc) bool {
		switch fd.Type {
		case storage.TypeManifest:
			return fd.Num >= s.manifestFd.Num
		case storage.TypeJournal:
			if !db.frozenJournalFd.Zero() {
				return fd.Num >= db.frozenJournalFd.Num
			}
			return fd.Num >= db.journalFd.Num
		case storage.TypeTable:
			for _, n := range live {
				if n == fd.Num {
					return true
				}
			}
			return false
		case storage.TypeTemp:
			// left by an interrupted Recover; nothing uses it once the DB opens
			return false
		}
		return true
	}
	listed := func(fd storage.FileDesc) bool {
		for _, o := range st.list {
			if o == fd {
				return true
			}
		}
		return false
	}
	missing := false
	for _, n := range live {
		if !listed(storage.FileDesc{Type: storage.TypeTable, Num: n}) {
			missing = true
		}
	}
	err := db.checkAndCleanFiles()
	if missing {
		vpAssert(err != nil && errors.IsCorrupted(err), "missing-live-table-reported-as-corruption")
		vpAssert(len(st.removed) == 0, "nothing-removed-when-a-live-table-is-missing")
		return
	}
	vpAssert(err == nil, "sweep-ok")
	for i, fd := range st.removed {
		vpAssert(!needed(fd), "swept-file-not-needed")
		vpAssert(listed(fd), "swept-file-was-listed")
		for _, o := range st.removed[:i] {
			vpAssert(o != fd, "swept-at-most-once")
		}
	}
	for _, fd := range st.list {
		if needed(fd) {
			continue
		}
		found := false
		for _, o := range st.removed {
			if o == fd {
				found = true
			}
		}
		vpAssert(found, "unneeded-file-swept")
	}
	vpAssert(nv.ref == 1, "sweep-leaves-no-version-reference")
}

func ZZ_C07_sweep_witness() {
	ZZ_C07_sweep()
	vpAssert(false, "witness")
}
