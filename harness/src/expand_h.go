package leveldb

// C06-expand: the inputs chosen for a compaction are complete — every file of
// the next level that meets the user-key hull of the source files is an input,
// for a level-0 source the source set is overlap-closed, the recorded hull is
// the hull of the source files, and the grand-parent list is exactly the
// overlapping files two levels down. Real newCompaction/expand/getOverlaps/
// getRange over a symbolic well-formed version.

import (
	"github.com/syndtr/goleveldb/leveldb/opt"
	"github.com/syndtr/goleveldb/leveldb/storage"
)

func zzExpand(which int, sourceLevel int) {
	s := &session{stor: newIStorage(storage.NewMemStorage())}
	s.setOptions(&opt.Options{Comparer: zzCmp(which)})
	icmp := s.icmp
	// one-byte user keys here (the empty key as a bound is the overlaps harness's subject)
	mk := func(level int, n int) tFiles {
		var fs tFiles
		for i := 0; i < n; i++ {
			lo, hi := []byte{vpNondetU8()}, []byte{vpNondetU8()}
			vpAssume(icmp.uCompare(lo, hi) <= 0)
			if level > 0 && i > 0 {
				vpAssume(icmp.uCompare(fs[i-1].imax.ukey(), lo) < 0)
			}
			fs = append(fs, zzFile(int64(i), lo, hi))
		}
		return fs
	}
	l0 := mk(0, vpChoose(zzFiles+1))
	l1 := mk(1, vpChoose(zzFiles+1))
	l2 := mk(2, vpChoose(2))
	var l3 tFiles
	for i, fs := range []tFiles{l0, l1, l2, l3} {
		for j, f := range fs {
			f.fd = storage.FileDesc{Type: storage.TypeTable, Num: int64(10*i + j + 1)}
			f.size = 1
		}
	}
	v := &version{s: s, levels: []tFiles{l0, l1, l2, l3}, ref: 1}
	src := v.levels[sourceLevel]
	if len(src) == 0 {
		vpAssume(false)
	}
	seed := src[vpChoose(len(src))]
	typ := level0Compaction
	if sourceLevel > 0 {
		typ = nonLevel0Compaction
	}
	c := newCompaction(s, v, sourceLevel, tFiles{seed}, typ)
	in0, in1 := c.levels[0], c.levels[1]
	vpAssert(zzHas(in0, seed), "seed-file-is-an-input")
	// hull of the source inputs (user keys)
	var lo, hi []byte
	for i, f := range in0 {
		if i == 0 || icmp.uCompare(f.imin.ukey(), lo) < 0 {
			lo = f.imin.ukey()
		}
		if i == 0 || icmp.uCompare(f.imax.ukey(), hi) > 0 {
			hi = f.imax.ukey()
		}
	}
	vpAssert(vpEqBytes(c.imin.ukey(), lo) || icmp.uCompare(c.imin.ukey(), lo) == 0, "recorded-min-is-hull-min")
	vpAssert(icmp.uCompare(c.imax.ukey(), hi) == 0, "recorded-max-is-hull-max")
	// every next-level file meeting the hull is an input, and nothing else
	for _, t := range v.levels[sourceLevel+1] {
		vpAssert(zzMeets(icmp, t, lo, hi) == zzHas(in1, t), "next-level-inputs-exactly-the-overlapping-files")
	}
	// level-0 source: no level-0 file outside the inputs meets an input
	if sourceLevel == 0 {
		for _, t := range v.levels[0] {
			if zzHas(in0, t) {
				continue
			}
			vpAssert(!zzMeets(icmp, t, lo, hi), "level0-source-set-overlap-closed")
		}
	} else {
		vpAssert(len(in0) >= 1, "source-inputs-nonempty")
	}
	// grand parents: exactly the files two levels down meeting the hull of all inputs
	alo, ahi := lo, hi
	for _, f := range in1 {
		if icmp.uCompare(f.imin.ukey(), alo) < 0 {
			alo = f.imin.ukey()
		}
		if icmp.uCompare(f.imax.ukey(), ahi) > 0 {
			ahi = f.imax.ukey()
		}
	}
	if sourceLevel+2 < len(v.levels) {
		for _, t := range v.levels[sourceLevel+2] {
			vpAssert(zzMeets(icmp, t, alo, ahi) == zzHas(c.gp, t), "grandparents-exactly-the-overlapping-files")
		}
	}
}

func ZZ_C06_expand_l0()     { zzExpand(0, 0) }
func ZZ_C06_expand_l1()     { zzExpand(0, 1) }
func ZZ_C06_expand_l0_rev() { zzExpand(1, 0) }
func ZZ_C06_expand_l1_rev() { zzExpand(1, 1) }
