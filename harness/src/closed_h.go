package leveldb

// C18: after Close every method returns the closed error instead of crashing
// or touching storage (all other fields of the DB are nil here, so touching
// the session, the channels or the buffers would be a nil dereference);
// released snapshots, finished transactions and released iterators report
// their own errors; a storage has one owner at a time.

import (
	"container/list"

	"github.com/syndtr/goleveldb/leveldb/comparer"
	"github.com/syndtr/goleveldb/leveldb/iterator"
	"github.com/syndtr/goleveldb/leveldb/opt"
	"github.com/syndtr/goleveldb/leveldb/storage"
	"github.com/syndtr/goleveldb/leveldb/util"
)

func ZZ_C18_closed_db() {
	db := &DB{closed: 1}
	k, v := zzBytes(1), zzBytes(1)
	switch vpChoose(14) {
	case 0:
		_, err := db.Get(k, nil)
		vpAssert(err == ErrClosed, "closed-get")
	case 1:
		_, err := db.Has(k, nil)
		vpAssert(err == ErrClosed, "closed-has")
	case 2:
		it := db.NewIterator(nil, nil)
		vpAssert(!it.First() && !it.Next() && !it.Seek(k) && it.Error() == ErrClosed, "closed-iterator")
		it.Release()
		it2 := db.NewIterator(&util.Range{Start: k}, &opt.ReadOptions{})
		vpAssert(!it2.Last() && it2.Error() == ErrClosed, "closed-iterator-range")
	case 3:
		s, err := db.GetSnapshot()
		vpAssert(s == nil && err == ErrClosed, "closed-getsnapshot")
	case 4:
		_, err := db.GetProperty("leveldb.stats")
		vpAssert(err == ErrClosed, "closed-getproperty")
	case 5:
		vpAssert(db.Stats(&DBStats{}) == ErrClosed, "closed-stats")
	case 6:
		_, err := db.SizeOf([]util.Range{{Start: k}})
		vpAssert(err == ErrClosed, "closed-sizeof")
	case 7:
		vpAssert(db.Close() == ErrClosed, "second-close")
	case 8:
		tr, err := db.OpenTransaction()
		vpAssert(tr == nil && err == ErrClosed, "closed-opentransaction")
	case 9:
		b := new(Batch)
		b.Put(k, v)
		vpAssert(db.Write(b, nil) == ErrClosed, "closed-write")
		vpAssert(db.Write(b, &opt.WriteOptions{Sync: true, NoWriteMerge: true}) == ErrClosed, "closed-write-opts")
	case 10:
		vpAssert(db.Put(k, v, nil) == ErrClosed, "closed-put")
	case 11:
		vpAssert(db.Delete(k, nil) == ErrClosed, "closed-delete")
	case 12:
		vpAssert(db.CompactRange(util.Range{Start: k}) == ErrClosed, "closed-compactrange")
	default:
		vpAssert(db.SetReadOnly() == ErrClosed, "closed-setreadonly")
	}
}

func ZZ_C18_snapshot() {
	db := &DB{snapsList: list.New()}
	db.setSeq(zzSeq())
	snap := db.newSnapshot()
	other := db.newSnapshot()
	k := zzBytes(1)
	if vpChoose(2) == 0 {
		// released snapshot
		snap.Release()
		_, err := snap.Get(k, nil)
		vpAssert(err == ErrSnapshotReleased, "released-snapshot-get")
		_, err = snap.Has(k, nil)
		vpAssert(err == ErrSnapshotReleased, "released-snapshot-has")
		it := snap.NewIterator(nil, nil)
		vpAssert(!it.First() && it.Error() == ErrSnapshotReleased, "released-snapshot-iterator")
		snap.Release() // harmless
		vpAssert(db.aliveSnaps == 1 && other.elem != nil && other.elem.ref >= 1, "other-snapshot-intact")
	} else {
		// snapshot outliving the DB
		db.closed = 1
		_, err := snap.Get(k, nil)
		vpAssert(err == ErrClosed, "snapshot-on-closed-db-get")
		_, err = snap.Has(k, nil)
		vpAssert(err == ErrClosed, "snapshot-on-closed-db-has")
		it := snap.NewIterator(nil, nil)
		vpAssert(!it.Next() && it.Error() == ErrClosed, "snapshot-on-closed-db-iterator")
		snap.Release()
	}
}

func ZZ_C18_transaction_done() {
	db := &DB{}
	if vpChoose(2) == 1 {
		db.closed = 1
	}
	tr := &Transaction{db: db, closed: true} // as left by Commit, Discard or DB.Close
	k, v := zzBytes(1), zzBytes(1)
	_, err := tr.Get(k, nil)
	vpAssert(err == errTransactionDone, "done-get")
	_, err = tr.Has(k, nil)
	vpAssert(err == errTransactionDone, "done-has")
	vpAssert(tr.Put(k, v, nil) == errTransactionDone, "done-put")
	vpAssert(tr.Delete(k, nil) == errTransactionDone, "done-delete")
	b := new(Batch)
	b.Put(k, v)
	vpAssert(tr.Write(b, nil) == errTransactionDone, "done-write")
	it := tr.NewIterator(nil, nil)
	vpAssert(!it.First() && it.Error() == errTransactionDone, "done-iterator")
	cerr := tr.Commit()
	vpAssert(cerr == errTransactionDone || (db.closed == 1 && cerr == ErrClosed), "done-commit")
	tr.Discard()
}

func ZZ_C18_iterator_released() {
	icmp := &iComparer{comparer.DefaultComparer}
	_, arr := zzStream(icmp, 2)
	db := &DB{}
	db.aliveIters = 1
	it := &dbIter{db: db, icmp: icmp, iter: iterator.NewArrayIterator(arr), seq: keyMaxSeq, disableSampling: true, key: make([]byte, 0), value: make([]byte, 0)}
	it.First()
	it.Release()
	vpAssert(db.aliveIters == 0, "alive-count-dropped")
	vpAssert(it.Key() == nil && it.Value() == nil && !it.Valid(), "released-iterator-nil")
	var ok bool
	switch vpChoose(5) {
	case 0:
		ok = it.First()
	case 1:
		ok = it.Last()
	case 2:
		ok = it.Next()
	case 3:
		ok = it.Prev()
	default:
		ok = it.Seek(zzBytes(1))
	}
	vpAssert(!ok && it.Error() == ErrIterReleased, "released-iterator-move")
	it.Release() // harmless
	vpAssert(db.aliveIters == 0, "double-release-harmless")
}

// one owner at a time
func ZZ_C18_lock() {
	st := storage.NewMemStorage()
	l1, err := st.Lock()
	vpAssert(err == nil && l1 != nil, "first-lock")
	_, err = st.Lock()
	vpAssert(err == storage.ErrLocked, "second-lock-refused")
	l1.Unlock()
	l2, err := st.Lock()
	vpAssert(err == nil, "lock-after-unlock")
	l1.Unlock() // a stale locker must not release the new owner's lock
	_, err = st.Lock()
	vpAssert(err == storage.ErrLocked, "stale-unlock-does-not-release")
	l2.Unlock()
	_, err = st.Lock()
	vpAssert(err == nil, "lock-after-owner-unlock")
}

func ZZ_C18_witness() {
	ZZ_C18_snapshot()
	vpAssert(false, "witness")
}
