package leveldb

// C04-rotate / C04-manifest: what a commit acknowledges is what a reopen reads
// back from the manifest — also when the commit rotates to a fresh manifest
// file. Real session.commit / newManifest / flushManifest / fillRecord /
// recordCommited / sessionRecord.encode/decode / session.recover over the real
// in-memory storage and the real journal framing.

import (
	"github.com/syndtr/goleveldb/leveldb/opt"
	"github.com/syndtr/goleveldb/leveldb/storage"
)

func zzSession(stor storage.Storage, maxManifest int64) *session {
	closed := make(chan struct{})
	close(closed) // no reference loop in this kernel: version ref messages take the closeC arm
	s := &session{stor: newIStorage(stor), closeC: closed, abandon: make(chan int64, 8)}
	s.setOptions(&opt.Options{MaxManifestFileSize: maxManifest})
	s.setVersion(nil, newVersion(s))
	return s
}

func ZZ_C04_rotate() {
	stor := storage.NewMemStorage()
	maxm := int64(64 << 20)
	if vpChoose(2) == 1 {
		maxm = 1 // every commit after the first rotates the manifest
	}
	s := zzSession(stor, maxm)
	vpAssert(s.create() == nil, "create-ok")
	ncommit := 1 + vpChoose(2)
	var jn int64
	var sn uint64
	ntables := 0
	for c := 0; c < ncommit; c++ {
		rec := &sessionRecord{}
		// a flush-style edit: new journal number, new sequence number, one new table
		j := int64(vpNondetU8())
		q := uint64(vpNondetU8())
		vpAssume(j > jn)
		vpAssume(q >= sn)
		rec.setJournalNum(j)
		rec.setSeqNum(q)
		num := s.allocFileNum()
		rec.addTable(0, num, 10, makeInternalKey(nil, []byte("a"), q, keyTypeVal), makeInternalKey(nil, []byte("b"), q, keyTypeVal))
		vpAssert(s.commit(rec, false) == nil, "commit-ok")
		jn, sn = j, q
		ntables++
		vpAssert(s.stJournalNum == jn, "session-journal-number-updated")
		vpAssert(s.stSeqNum == sn, "session-sequence-number-updated")
	}
	// clean shutdown of the manifest writer (what session.close does), then
	// reopen: a fresh session over the same storage reads the manifest back
	s.manifest.Close()
	s.manifestWriter.Close()
	s2 := zzSession(stor, maxm)
	vpAssert(s2.recover() == nil, "recover-ok")
	vpAssert(s2.stJournalNum == jn, "reopened-journal-number")
	vpAssert(s2.stSeqNum == sn, "reopened-sequence-number")
	vpAssert(s2.stVersion.tLen(0) == ntables, "reopened-tables")
	// exactly one manifest file is left, and CURRENT names it
	fds, _ := stor.List(storage.TypeManifest)
	vpAssert(len(fds) == 1, "one-manifest-left")
	meta, err := stor.GetMeta()
	vpAssert(err == nil && len(fds) == 1 && meta == fds[0], "current-names-the-manifest")
}

func ZZ_C04_witness() {
	ZZ_C04_rotate()
	vpAssert(false, "witness")
}
