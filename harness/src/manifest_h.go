package leveldb

// C04-rotate / C04-manifest: what a commit acknowledges is what a reopen reads
// back from the manifest — also when the commit rotates to a fresh manifest
// file. Real session.commit / newManifest / flushManifest / fillRecord /
// recordCommited / sessionRecord.encode/decode / session.recover over the real
// in-memory storage and the real journal framing.

import (
	"github.com/syndtr/goleveldb/leveldb/opt"
	"github.com/syndtr/goleveldb/leveldb/storage"
)

func zzSession(stor storage.Storage, maxManifest int64) *session {
	closed := make(chan struct{})
	close(closed) // no reference loop in this kernel: version ref messages take the closeC arm
	s := &session{stor: newIStorage(stor), closeC: closed, abandon: make(chan int64, 8)}
	s.setOptions(&opt.Options{MaxManifestFileSize: maxManifest, Compression: opt.NoCompression})
	s.setVersion(nil, newVersion(s))
	return s
}

func ZZ_C04_rotate() {
	// the storage is wrapped by the durability monitor (recover_h.go): CURRENT
	// may only be switched to a synced manifest, the current manifest is never removed
	var stor storage.Storage = &zzCrashStor{Storage: storage.NewMemStorage(), crashAt: -1}
	maxm := int64(64 << 20)
	if vpChoose(2) == 1 {
		maxm = 1 // every commit after the first rotates the manifest
	}
	s := zzSession(stor, maxm)
	vpAssert(s.create() == nil, "create-ok")
	ncommit := 1 + vpChoose(2)
	var jn int64
	var sn uint64
	ntables := 0
	for c := 0; c < ncommit; c++ {
		rec := &sessionRecord{}
		// a flush-style edit: new journal number, new sequence number, one new table
		j := int64(vpNondetU8())
		q := uint64(vpNondetU8())
		vpAssume(j > jn)
		vpAssume(q >= sn)
		rec.setJournalNum(j)
		rec.setSeqNum(q)
		num := s.allocFileNum()
		rec.addTable(0, num, 10, makeInternalKey(nil, []byte("a"), q, keyTypeVal), makeInternalKey(nil, []byte("b"), q, keyTypeVal))
		vpAssert(s.commit(rec, false) == nil, "commit-ok")
		// an acknowledged commit is durable: no manifest has unsynced bytes
		for f, d := range stor.(*zzCrashStor).dirty {
			vpAssert(f.Type != storage.TypeManifest || !d, "acknowledged-commit-is-synced")
		}
		jn, sn = j, q
		ntables++
		vpAssert(s.stJournalNum == jn, "session-journal-number-updated")
		vpAssert(s.stSeqNum == sn, "session-sequence-number-updated")
	}
	// clean shutdown of the manifest writer (what session.close does), then
	// reopen: a fresh session over the same storage reads the manifest back
	s.manifest.Close()
	s.manifestWriter.Close()
	s2 := zzSession(stor, maxm)
	vpAssert(s2.recover() == nil, "recover-ok")
	vpAssert(s2.stJournalNum == jn, "reopened-journal-number")
	vpAssert(s2.stSeqNum == sn, "reopened-sequence-number")
	vpAssert(s2.stVersion.tLen(0) == ntables, "reopened-tables")
	// exactly one manifest file is left, and CURRENT names it
	fds, _ := stor.List(storage.TypeManifest)
	vpAssert(len(fds) == 1, "one-manifest-left")
	meta, err := stor.GetMeta()
	vpAssert(err == nil && len(fds) == 1 && meta == fds[0], "current-names-the-manifest")
}

func ZZ_C04_witness() {
	ZZ_C04_rotate()
	vpAssert(false, "witness")
}

// ---- C09-retry / C08-commit: a failed manifest write must not wedge the session ----

type zzFaultStor struct {
	storage.Storage
	failWrite, failSync *bool // armed faults for manifest writers (one shot)
	failSyncN           *int  // the next *failSyncN manifest syncs fail (nil: none)
}

type zzFaultWriter struct {
	storage.Writer
	s *zzFaultStor
}

func (s *zzFaultStor) Create(fd storage.FileDesc) (storage.Writer, error) {
	w, err := s.Storage.Create(fd)
	if err != nil || fd.Type != storage.TypeManifest {
		return w, err
	}
	return &zzFaultWriter{w, s}, nil
}

func (w *zzFaultWriter) Write(p []byte) (int, error) {
	if *w.s.failWrite {
		*w.s.failWrite = false
		return 0, errZZFault
	}
	return w.Writer.Write(p)
}

func (w *zzFaultWriter) Sync() error {
	if w.s.failSyncN != nil && *w.s.failSyncN > 0 {
		*w.s.failSyncN--
		return errZZFault
	}
	if *w.s.failSync {
		*w.s.failSync = false
		return errZZFault
	}
	return w.Writer.Sync()
}

func zzEdit(s *session, j int64, q uint64) *sessionRecord {
	rec := &sessionRecord{}
	rec.setJournalNum(j)
	rec.setSeqNum(q)
	rec.addTable(0, s.allocFileNum(), 10, makeInternalKey(nil, []byte("a"), q, keyTypeVal), makeInternalKey(nil, []byte("b"), q, keyTypeVal))
	return rec
}

func ZZ_C09_commit_retry() {
	fw, fs := false, false
	stor := &zzFaultStor{Storage: storage.NewMemStorage(), failWrite: &fw, failSync: &fs}
	s := zzSession(stor, 64<<20)
	vpAssert(s.create() == nil, "create-ok")
	vpAssert(s.commit(zzEdit(s, 2, 5), false) == nil, "first-commit-ok")
	// one transient fault on the next manifest write or sync
	writeFault := vpNondetBool()
	if writeFault {
		fw = true
	} else {
		fs = true
	}
	rec := zzEdit(s, 3, 9)
	err := s.commit(rec, false)
	vpAssert(err != nil, "faulted-commit-reports-the-error")
	vpAssert(s.stJournalNum == 2 && s.stSeqNum == 5 && s.stVersion.tLen(0) == 1, "failed-commit-leaves-session-state")
	// the fault is gone: the retry (what compactionCommit's loop does, holding
	// the commit lock) must eventually succeed
	err = s.commit(rec, false)
	if writeFault {
		vpAssert(err == nil, "commit-succeeds-after-a-transient-write-fault")
	} else {
		vpAssert(err == nil, "commit-succeeds-after-a-transient-sync-fault")
	}
	if err == nil {
		vpAssert(s.stJournalNum == 3 && s.stSeqNum == 9 && s.stVersion.tLen(0) == 2, "retried-commit-applied")
		s.manifest.Close()
		s.manifestWriter.Close()
		s2 := zzSession(stor, 64<<20)
		vpAssert(s2.recover() == nil, "recover-ok")
		vpAssert(s2.stJournalNum == 3 && s2.stSeqNum == 9 && s2.stVersion.tLen(0) == 2, "reopened-state-after-retry")
	}
}
