package leveldb

// C03-drop (also C06-cut): the compaction drop rule never removes an entry
// that some reader at a sequence >= minSeq (= any live snapshot or iterator,
// and the live DB) can still observe. The real tableCompactionBuilder.run is
// executed over a symbolic sorted input stream; its four I/O boundary methods
// are replaced (declaration-line rewrites) by recorders.

import (
	"github.com/syndtr/goleveldb/leveldb/comparer"
	"github.com/syndtr/goleveldb/leveldb/iterator"
)

var (
	zzInput   *zzArr
	zzKept    []int // indexes into zzInput of the entries appended to the output
	zzCuts    []int // len(zzKept) at each flush
	zzFailAt  = -1  // appendKV call number that fails (C03-resume), -1 = never
	zzAppends int
)

func (c *compaction) newIterator() iterator.Iterator { return iterator.NewArrayIterator(zzInput) }

func (b *tableCompactionBuilder) appendKV(key, value []byte) error {
	if zzAppends == zzFailAt {
		zzAppends++
		return errZZInjected
	}
	zzAppends++
	idx := -1
	for i := range zzInput.keys {
		if vpSameBacking(key, zzInput.keys[i]) {
			idx = i
		}
	}
	vpAssert(idx >= 0, "kept-entry-is-an-input-entry")
	vpAssert(vpSameBacking(value, zzInput.vals[idx]), "kept-value-belongs-to-its-key")
	zzKept = append(zzKept, idx)
	if b.tw == nil {
		b.tw = &tWriter{}
	}
	b.tw.first = key
	return nil
}

type zzErr struct{}

func (zzErr) Error() string { return "zz: injected" }

var errZZInjected error = zzErr{}

func (b *tableCompactionBuilder) needFlush() bool { return vpChoose(2) == 1 }

func (b *tableCompactionBuilder) flush() error {
	zzCuts = append(zzCuts, len(zzKept))
	b.tw = nil
	return nil
}

func (b *tableCompactionBuilder) cleanup() error {
	if b.tw != nil {
		// an unfinished output table is dropped: its entries are not part of the result
		n := 0
		if len(zzCuts) > 0 {
			n = zzCuts[len(zzCuts)-1]
		}
		zzKept = zzKept[:n]
		b.tw = nil
	}
	return nil
}

// deeper level files: one-byte user-key ranges, sorted and disjoint per level
func zzDeeperLevel(icmp *iComparer, nfiles int) tFiles {
	var fs tFiles
	for i := 0; i < nfiles; i++ {
		lo, hi := []byte{vpNondetU8()}, []byte{vpNondetU8()}
		vpAssume(icmp.uCompare(lo, hi) <= 0)
		if i > 0 {
			vpAssume(icmp.uCompare(fs[i-1].imax.ukey(), lo) < 0)
		}
		f := &tFile{size: int64(vpNondetU8()), imin: makeInternalKey(nil, lo, zzSeq(), zzKT()), imax: makeInternalKey(nil, hi, zzSeq(), zzKT())}
		fs = append(fs, f)
	}
	return fs
}

func zzInRange(icmp *iComparer, fs tFiles, u []byte) bool {
	r := false
	for _, f := range fs {
		r = vpOr(r, vpAnd(icmp.uCompare(f.imin.ukey(), u) <= 0, icmp.uCompare(u, f.imax.ukey()) <= 0))
	}
	return r
}

// zzVis: what a reader at sequence r sees for user key u in the entries idx
// (sorted, newest first per key) layered over one optional deeper entry.
// Returns (found, value) without forking.
func zzVis(ents []zzEnt, idx []int, u byte, r uint64, hasD bool, d zzEnt) (bool, byte) {
	decided, found, val := false, false, byte(0)
	for _, i := range idx {
		e := ents[i]
		match := vpAnd(vpAnd(!decided, e.u[0] == u), e.seq <= r)
		found = vpOr(vpAnd(match, e.kt == keyTypeVal), vpAnd(!match, found))
		val = vpIteU8(match, e.v[0], val)
		decided = vpOr(decided, match)
	}
	matchD := vpAnd(vpAnd(!decided, hasD), vpAnd(d.u[0] == u, d.seq <= r))
	found = vpOr(vpAnd(matchD, d.kt == keyTypeVal), vpAnd(!matchD, found))
	val = vpIteU8(matchD, d.v[0], val)
	val = vpIteU8(found, val, 0)
	return found, val
}

func zzDropSetup(n int) (*tableCompactionBuilder, []zzEnt, *iComparer) {
	icmp := &iComparer{comparer.DefaultComparer}
	ents, arr := zzStream(icmp, n)
	zzInput, zzKept, zzCuts, zzAppends = arr, nil, nil, 0
	s := &session{icmp: icmp}
	l2 := zzDeeperLevel(icmp, vpChoose(zzMaxDeep+1))
	l3 := zzDeeperLevel(icmp, vpChoose(2))
	v := &version{s: s, levels: []tFiles{nil, nil, l2, l3}}
	c := &compaction{s: s, v: v, sourceLevel: 0, maxGPOverlaps: int64(vpNondetU8()), tPtrs: make([]int, len(v.levels))}
	if zzWithGP {
		c.gp = l2
	}
	c.save()
	b := &tableCompactionBuilder{s: s, c: c, rec: &sessionRecord{}, stat1: &cStatStaging{}, minSeq: zzSeq(), tableSize: 1 << 20}
	// run() uses keyMaxSeq (2^56-1) as the "no newer entry of this key seen"
	// sentinel; a DB whose sequence counter has reached 2^56-1 is outside the
	// claim (it would drop the newest entry of every key).
	vpAssume(b.minSeq < keyMaxSeq)
	return b, ents, icmp
}

func zzDropCheck(b *tableCompactionBuilder, ents []zzEnt, icmp *iComparer) {
	n := len(ents)
	// kept entries are a subsequence of the input
	for i := 1; i < len(zzKept); i++ {
		vpAssert(zzKept[i-1] < zzKept[i], "kept-is-a-subsequence")
	}
	// no output table boundary between two entries of one user key (C06)
	for _, c := range zzCuts {
		if c > 0 && c < len(zzKept) {
			vpAssert(ents[zzKept[c-1]].u[0] != ents[zzKept[c]].u[0], "no-cut-inside-a-user-key")
		}
	}
	// an optional deeper entry, constrained by LSM well-formedness: inside a
	// deeper file's range and older than every input entry of the same key
	hasD := vpNondetBool()
	d := zzEnt{u: []byte{vpNondetU8()}, seq: zzSeq(), kt: zzKT(), v: []byte{vpNondetU8()}}
	vpAssume(vpImplies(hasD, vpOr(zzInRange(icmp, b.c.v.levels[2], d.u), zzInRange(icmp, b.c.v.levels[3], d.u))))
	for i := 0; i < n; i++ {
		vpAssume(vpImplies(vpAnd(hasD, ents[i].u[0] == d.u[0]), d.seq < ents[i].seq))
	}
	// every reader not older than minSeq, every user key
	r := zzSeq()
	vpAssume(r >= b.minSeq)
	u := vpNondetU8()
	all := make([]int, n)
	for i := range all {
		all[i] = i
	}
	f0, v0 := zzVis(ents, all, u, r, hasD, d)
	f1, v1 := zzVis(ents, zzKept, u, r, hasD, d)
	vpAssert(f0 == f1, "same-presence-for-every-reader")
	vpAssert(v0 == v1, "same-value-for-every-reader")
}

func zzDrop(n int) {
	b, ents, icmp := zzDropSetup(n)
	var cnt compactionTransactCounter
	err := b.run(&cnt)
	vpAssert(err == nil, "run-ok")
	zzDropCheck(b, ents, icmp)
}

func ZZ_C03_drop2() { zzDrop(2) }
func ZZ_C03_drop3() { zzDrop(3) }
func ZZ_C03_drop4() { zzDrop(4) }
func ZZ_C03_drop5() { zzDrop(5) }

func ZZ_C03_drop_witness() {
	zzDrop(2)
	vpAssert(false, "witness")
}

// C03-resume: a failure at any appendKV, then the retry from the saved state
// (as compactionTransact does) yields the same result as an undisturbed run.
func zzResume(n int) {
	b, ents, icmp := zzDropSetup(n)
	zzFailAt = vpChoose(n)
	var cnt compactionTransactCounter
	err := b.run(&cnt)
	if err != nil {
		vpAssert(err == errZZInjected, "only-the-injected-error")
		zzFailAt = -1
		err = b.run(&cnt)
	}
	vpAssert(err == nil, "retry-ok")
	zzDropCheck(b, ents, icmp)
}

func ZZ_C03_resume3() { zzResume(3) }
func ZZ_C03_resume4() { zzResume(4) }
