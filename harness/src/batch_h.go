package leveldb

// C01-batch (also C04-batch): what is written to the journal for a group of
// batches decodes to exactly the records that were applied to the write
// buffer, with the same sequence numbers — so replay after a reopen rebuilds
// what ran before it. Arbitrary bytes never crash the decoder.

import (
	"github.com/syndtr/goleveldb/leveldb/comparer"
	"github.com/syndtr/goleveldb/leveldb/memdb"
)

type zzByteSink struct{ data []byte }

func (s *zzByteSink) Write(p []byte) (int, error) { s.data = append(s.data, p...); return len(p), nil }

type zzRecd struct {
	kt   keyType
	k, v []byte
}

func zzFillBatch(b *Batch, n int) []zzRecd {
	var recs []zzRecd
	for i := 0; i < n; i++ {
		k := zzBytes(zzKeyLen)
		if vpChoose(2) == 0 {
			v := zzBytes(zzValLen)
			b.Put(k, v)
			recs = append(recs, zzRecd{keyTypeVal, k, v})
		} else {
			b.Delete(k)
			recs = append(recs, zzRecd{keyTypeDel, k, nil})
		}
	}
	return recs
}

func zzSameMem(a, b *memdb.DB) {
	vpAssert(a.Len() == b.Len(), "mem-same-len")
	ia, ib := a.NewIterator(nil), b.NewIterator(nil)
	for ia.Next() {
		vpAssert(ib.Next(), "mem-b-has-entry")
		vpAssert(len(ia.Key()) == len(ib.Key()) && vpEqBytes(ia.Key(), ib.Key()), "mem-same-key")
		vpAssert(len(ia.Value()) == len(ib.Value()) && vpEqBytes(ia.Value(), ib.Value()), "mem-same-value")
	}
	vpAssert(!ib.Next(), "mem-b-no-extra")
}

func ZZ_C01_batch_roundtrip() {
	icmp := &iComparer{comparer.DefaultComparer}
	b1, b2 := new(Batch), new(Batch)
	n1 := 1 + vpChoose(zzRecs)
	n2 := vpChoose(zzRecs)
	r1 := zzFillBatch(b1, n1)
	r2 := zzFillBatch(b2, n2)
	all := append(append([]zzRecd(nil), r1...), r2...)
	seq := zzSeq()
	vpAssume(seq+uint64(n1+n2) <= keyMaxSeq)
	batches := []*Batch{b1}
	if n2 > 0 {
		batches = append(batches, b2)
	}
	// what the write path does: journal record, then apply to the buffer
	sink := &zzByteSink{}
	vpAssert(writeBatchesWithHeader(sink, batches, seq) == nil, "write-ok")
	applied := memdb.New(icmp, 0)
	s := seq
	for _, b := range batches {
		vpAssert(b.putMem(s, applied) == nil, "putmem-ok")
		s += uint64(b.Len())
	}
	// what recovery does
	replayed := memdb.New(icmp, 0)
	expect := vpNondetU64()
	vpAssume(expect <= seq)
	gotSeq, gotLen, err := decodeBatchToMem(sink.data, expect, replayed)
	vpAssert(err == nil, "decode-ok")
	vpAssert(gotSeq == seq && gotLen == n1+n2, "header-roundtrip")
	zzSameMem(applied, replayed)
	// record-level round trip through Load/Dump
	merged := new(Batch)
	for _, b := range batches {
		merged.append(b)
	}
	vpAssert(merged.Len() == n1+n2 && merged.internalLen == b1.internalLen+b2.internalLen, "append-len")
	loaded := new(Batch)
	vpAssert(loaded.Load(merged.Dump()) == nil, "load-ok")
	vpAssert(loaded.Len() == len(all), "load-len")
	i := 0
	loaded.replayInternal(func(_ int, kt keyType, k, v []byte) error {
		vpAssert(kt == all[i].kt, "rec-type")
		vpAssert(len(k) == len(all[i].k) && vpEqBytes(k, all[i].k), "rec-key")
		vpAssert(len(v) == len(all[i].v) && vpEqBytes(v, all[i].v), "rec-value")
		i++
		return nil
	})
	vpAssert(i == len(all), "rec-count")
}

// arbitrary bytes: error or success, never a panic, records stay inside data
func ZZ_C01_batch_garbage() {
	n := vpChoose(zzGarbageLen + 1)
	data := make([]byte, n)
	for i := range data {
		data[i] = vpNondetU8()
	}
	err := decodeBatch(data, func(i int, index batchIndex) error {
		vpAssert(index.keyPos >= 0 && index.keyLen >= 0 && index.keyPos+index.keyLen <= len(data), "key-inside-data")
		vpAssert(index.valueLen >= 0 && (index.valueLen == 0 || (index.valuePos >= 0 && index.valuePos+index.valueLen <= len(data))), "value-inside-data")
		_ = index.k(data)
		_ = index.v(data)
		return nil
	})
	_ = err
	b := new(Batch)
	_ = b.Load(data)
}

func ZZ_C01_batch_witness() {
	ZZ_C01_batch_roundtrip()
	vpAssert(false, "witness")
}
