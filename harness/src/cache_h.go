package cache

// C17 (sequential, all operation sequences within the bound): the shared
// cache never hands out a dead value, finalises each value once and only when
// no handle is outstanding, runs deletion callbacks exactly once, and the
// replacement policy never retains more than its capacity. Capacity and
// charges are symbolic.

type zzVal struct {
	id       int
	released int
}

func (v *zzVal) Release() {
	vpYield() // a real finaliser closes a file: other threads run meanwhile (no effect in the sequential harnesses)
	v.released++
	zzCheckNoHandleTo(v)
}

type zzHandle struct {
	h        *Handle
	ns, key  uint64
	v        *zzVal
	released bool
}

var (
	zzVals     []*zzVal
	zzHandles  []*zzHandle
	zzSetCalls int
	zzDelCalls []int // per registered delete callback
	zzDelKeys  [][2]uint64
	zzForce    bool
)

func zzCheckNoHandleTo(v *zzVal) {
	if zzForce {
		return
	}
	for _, h := range zzHandles {
		if !h.released && h.v == v {
			vpAssert(false, "value-finalised-while-handle-outstanding")
		}
	}
}

func zzOutstanding(ns, key uint64) int {
	n := 0
	for _, h := range zzHandles {
		if !h.released && h.ns == ns && h.key == key {
			n++
		}
	}
	return n
}

func zzInvariants(c *Cache, l *lru, closed bool) {
	// replacement policy: retained charge = used <= capacity
	sum := 0
	cnt := 0
	for rn := l.recent.next; rn != &l.recent; rn = rn.next {
		sum += rn.n.Size()
		cnt++
		vpAssert(cnt <= 16, "lru-list-well-formed")
		vpAssert(rn.n.value != nil, "lru-retains-only-live-values")
	}
	vpAssert(sum == l.used, "lru-used-equals-retained-charge")
	vpAssert(l.used <= l.capacity, "lru-within-capacity")
	for _, v := range zzVals {
		vpAssert(v.released <= 1, "value-finalised-at-most-once")
	}
	for _, n := range zzDelCalls {
		vpAssert(n <= 1, "delete-callback-at-most-once")
	}
	// a live handle always yields its (unfinalised) value
	for _, h := range zzHandles {
		if !h.released {
			got := h.h.Value()
			if !zzForce {
				vpAssert(got == Value(h.v), "handle-yields-its-value")
				vpAssert(h.v.released == 0, "handle-value-not-finalised")
			}
		}
	}
}

func ZZ_C17_seq() {
	zzVals, zzHandles, zzSetCalls, zzDelCalls, zzDelKeys, zzForce = nil, nil, 0, nil, nil, false
	capv := vpNondetInt()
	vpAssume(capv >= 0 && capv <= 4)
	lr := NewLRU(capv).(*lru)
	c := NewCache(lr)
	closed := false
	for step := 0; step < zzOps; step++ {
		ns, key := uint64(vpChoose(2)), uint64(vpChoose(2))
		switch vpChoose(9) {
		case 0: // Get with constructor
			var made *zzVal
			charge := vpNondetInt()
			vpAssume(charge >= 1 && charge <= 3)
			residentBefore := zzOutstanding(ns, key) > 0
			h := c.Get(ns, key, func() (int, Value) {
				zzSetCalls++
				made = &zzVal{id: len(zzVals)}
				zzVals = append(zzVals, made)
				return charge, made
			})
			if closed {
				vpAssert(h == nil, "closed-cache-hands-out-nothing")
				break
			}
			vpAssert(h != nil, "get-returns-handle")
			v := h.Value().(*zzVal)
			vpAssert(v.released == 0, "get-never-hands-out-a-dead-value")
			if residentBefore {
				vpAssert(made == nil, "constructor-runs-once-per-residency")
				for _, o := range zzHandles {
					if !o.released && o.ns == ns && o.key == key {
						vpAssert(o.v == v, "same-key-same-live-value")
					}
				}
			}
			zzHandles = append(zzHandles, &zzHandle{h: h, ns: ns, key: key, v: v})
		case 1: // Get without constructor
			h := c.Get(ns, key, nil)
			if h != nil {
				v := h.Value().(*zzVal)
				vpAssert(v.released == 0, "get-never-hands-out-a-dead-value")
				zzHandles = append(zzHandles, &zzHandle{h: h, ns: ns, key: key, v: v})
			}
		case 2: // release one outstanding handle
			var live []*zzHandle
			for _, h := range zzHandles {
				if !h.released {
					live = append(live, h)
				}
			}
			if len(live) == 0 {
				vpAssume(false)
			}
			h := live[vpChoose(len(live))]
			h.released = true
			h.h.Release()
			h.h.Release() // a second release is harmless
		case 3:
			if closed {
				// documented: every Cache method is a no-op after Close
				ran := false
				vpAssert(!c.Delete(ns, key, func() { ran = true }), "delete-after-close-is-a-no-op")
				vpAssert(!ran, "delete-after-close-is-a-no-op")
				break
			}
			idx := len(zzDelCalls)
			zzDelCalls = append(zzDelCalls, 0)
			zzDelKeys = append(zzDelKeys, [2]uint64{ns, key})
			c.Delete(ns, key, func() {
				zzDelCalls[idx]++
				if !zzForce {
					vpAssert(zzOutstanding(zzDelKeys[idx][0], zzDelKeys[idx][1]) == 0, "delete-callback-never-while-handle-outstanding")
				}
			})
		case 4:
			c.Evict(ns, key)
		case 5:
			c.EvictNS(ns)
		case 6:
			c.EvictAll()
		case 7:
			nc := vpNondetInt()
			vpAssume(nc >= 0 && nc <= 4)
			c.SetCapacity(nc)
		default:
			if closed {
				vpAssume(false)
			}
			zzForce = vpChoose(2) == 1
			c.Close(zzForce)
			closed = true
		}
		if !closed {
			zzInvariants(c, lr, closed)
		}
	}
	// wind down: release everything that is still held
	for _, h := range zzHandles {
		if !h.released {
			h.released = true
			h.h.Release()
		}
	}
	if !closed {
		c.EvictAll()
		zzInvariants(c, lr, closed)
		vpAssert(lr.used == 0, "everything-evictable-once-released")
		// every deletion callback has run exactly once by now
		for _, n := range zzDelCalls {
			vpAssert(n == 1, "delete-callback-exactly-once")
		}
		for _, v := range zzVals {
			vpAssert(v.released == 1, "every-value-finalised-exactly-once-when-unreferenced")
		}
		vpAssert(c.Nodes() == 0, "no-node-left")
	} else {
		for _, n := range zzDelCalls {
			vpAssert(n == 1, "delete-callback-exactly-once-after-close")
		}
		for _, v := range zzVals {
			vpAssert(v.released == 1, "every-value-finalised-exactly-once-after-close")
		}
	}
}

func ZZ_C17_witness() {
	ZZ_C17_seq()
	vpAssert(false, "witness")
}
