package leveldb

// C10-merge (also C09): the writer serialisation / merge protocol of
// DB.Write/Put over its four real channels, executed with W writer threads
// under every interleaving at channel operations. flush, writeJournal and
// rotateMem are contract stubs (declaration-line rewrites); Write, putRec,
// writeLocked and unlockWrite are the tree's code.

import (
	"container/list"

	"github.com/syndtr/goleveldb/leveldb/memdb"
	"github.com/syndtr/goleveldb/leveldb/opt"
	"github.com/syndtr/goleveldb/leveldb/storage"
)

type zzGroup struct {
	records int
	seq     uint64
	err     error
	sync    bool
	keys    []byte // first key byte of every record of the group
}

var (
	zzGroups      []zzGroup
	zzInGroup     int // groups between lock acquisition and release (must be <= 1)
	zzFreeSmall   bool
	zzJournalFail []bool
)

func (db *DB) flush(n int) (*memDB, int, error) {
	vpAssert(len(db.writeLockC) == 1, "leader-holds-the-write-lock")
	db.mem.incref()
	free := 1 << 20
	if zzFreeSmall {
		free = n + 12 // room for the leader and at most one small merged record
	}
	return db.mem, free, nil
}

func (db *DB) writeJournal(batches []*Batch, seq uint64, sync bool) error {
	g := zzGroup{records: batchesLen(batches), seq: seq, sync: sync}
	for _, b := range batches {
		for _, ix := range b.index {
			g.keys = append(g.keys, ix.k(b.data)[0])
		}
	}
	// groups are serialised: each starts right after the records published so far
	vpAssert(seq == db.seq+1, "group-starts-at-next-sequence")
	vpAssert(len(db.writeLockC) == 1, "journal-written-under-the-write-lock")
	if len(zzGroups) < len(zzJournalFail) && zzJournalFail[len(zzGroups)] {
		g.err = errZZFault
	}
	zzGroups = append(zzGroups, g)
	return g.err
}

func (db *DB) unlockWriteHook() {}

func zzMergeDB() *DB {
	s := &session{stor: newIStorage(storage.NewMemStorage())}
	s.setOptions(&opt.Options{WriteBuffer: 1 << 20})
	s.stVersion = &version{s: s, ref: 1}
	db := &DB{
		s:            s,
		seq:          100,
		writeMergeC:  make(chan writeMerge),
		writeMergedC: make(chan bool),
		writeLockC:   make(chan struct{}, 1),
		writeAckC:    make(chan error),
		closeC:       make(chan struct{}),
		compPerErrC:  make(chan error),
		compErrC:     make(chan error),
	}
	db.batchPool.New = newBatch
	db.mem = &memDB{db: db, DB: memdb.New(s.icmp, 1<<16), ref: 1}
	return db
}

func zzMerge(nw int) { zzMergeMode(nw, false) }

// syncMode: writer 0 calls DB.Write with its own batch, every writer's Sync
// option is symbolic, merging is on and the journal does not fail (those
// dimensions are the subject of the plain mode)
func zzMergeMode(nw int, syncMode bool) {
	zzGroups, zzInGroup = nil, 0
	zzFreeSmall = vpChoose(2) == 1
	zzJournalFail = make([]bool, nw)
	for i := range zzJournalFail {
		zzJournalFail[i] = !syncMode && vpNondetBool()
	}
	db := zzMergeDB()
	results := make([]error, nw)
	done := make([]int, nw)
	sizes := make([]int, nw)
	wantSync := make([]bool, nw)
	for i := 0; i < nw; i++ {
		i := i
		noMerge := !syncMode && vpChoose(2) == 1
		big := vpChoose(2) == 1
		useWrite := syncMode && i == 0 // DB.Write with the caller's own batch instead of DB.Put
		if syncMode {
			wantSync[i] = vpNondetBool() // symbolic: decided by the solver where it matters
		}
		val := []byte("v")
		if big {
			val = make([]byte, 40)
		}
		sizes[i] = 1
		wo := &opt.WriteOptions{NoWriteMerge: noMerge, Sync: wantSync[i]}
		go func() {
			if useWrite {
				b := new(Batch)
				b.Put([]byte{byte('a' + i)}, val)
				before := append([]byte(nil), b.Dump()...)
				results[i] = db.Write(b, wo)
				vpAssert(b.Len() == 1 && vpEqBytes(b.Dump(), before), "write-leaves-the-callers-batch-alone")
			} else {
				results[i] = db.Put([]byte{byte('a' + i)}, val, wo)
			}
			done[i]++
		}()
	}
	vpJoin()
	// every writer got exactly one answer
	for i := 0; i < nw; i++ {
		vpAssert(done[i] == 1, "every-writer-returns-once")
	}
	// the lock is free again and nothing is left in flight
	vpAssert(len(db.writeLockC) == 0, "write-lock-free-at-the-end")
	// each writer belongs to exactly one logged group and got that group's result
	total, okRecords := 0, 0
	nerr := 0
	for _, g := range zzGroups {
		total += g.records
		if g.err == nil {
			okRecords += g.records
		} else {
			nerr += g.records
		}
	}
	vpAssert(total == nw, "every-record-logged-exactly-once")
	// a group is synced when any of its writers asked for it
	for _, g := range zzGroups {
		for _, k := range g.keys {
			vpAssert(vpImplies(wantSync[int(k-'a')], g.sync), "group-synced-if-any-member-asked-for-sync")
		}
	}
	failed := 0
	for i := 0; i < nw; i++ {
		if results[i] != nil {
			vpAssert(results[i] == errZZFault, "only-the-journal-error-is-reported")
			failed++
		}
	}
	vpAssert(failed == nerr, "writers-get-their-groups-result")
	// sequence numbers are consumed once per logged record (a failed group's
	// numbers are never reused: its record may be in the journal file)
	_ = okRecords
	vpAssert(db.seq == 100+uint64(total), "sequence-advances-once-per-logged-record")
	// successful writes are in the buffer, failed ones are not
	for i := 0; i < nw; i++ {
		_, err := db.get(nil, nil, []byte{byte('a' + i)}, db.seq, nil)
		vpAssert((err == nil) == (results[i] == nil), "acknowledged-iff-readable")
	}
}

func ZZ_C10_merge2()      { zzMerge(2) }
func ZZ_C10_merge3()      { zzMerge(3) }
func ZZ_C10_merge2_sync() { zzMergeMode(2, true) }
func ZZ_C10_merge3_sync() { zzMergeMode(3, true) }

func ZZ_C10_witness() {
	zzMerge(2)
	vpAssert(false, "witness")
}

// C10/C18-close: writers racing with the real DB.Close: every writer returns
// exactly once with nil, the injected journal error or ErrClosed; Close
// returns; nothing deadlocks; a write acknowledged with nil is in the buffer.
func ZZ_C10_merge2_close() {
	const nw = 2
	zzGroups, zzInGroup = nil, 0
	zzFreeSmall = vpChoose(2) == 1
	zzJournalFail = make([]bool, nw) // journal failures are the subject of ZZ_C10_merge2/3
	db := zzLiveDB()
	db.seq = 100
	db.batchPool.New = newBatch
	db.mem = &memDB{db: db, DB: memdb.New(db.s.icmp, 1<<16), ref: 1}
	mem := db.mem
	results := make([]error, nw)
	done := make([]int, nw)
	for i := 0; i < nw; i++ {
		i := i
		noMerge := vpChoose(2) == 1
		go func() {
			results[i] = db.Put([]byte{byte('a' + i)}, []byte("v"), &opt.WriteOptions{NoWriteMerge: noMerge})
			done[i]++
		}()
	}
	var cerr error
	closed := 0
	go func() {
		cerr = db.Close()
		closed++
	}()
	vpJoin()
	vpAssert(closed == 1 && cerr == nil, "close-returns-nil")
	for i := 0; i < nw; i++ {
		vpAssert(done[i] == 1, "every-writer-returns-once")
		vpAssert(results[i] == nil || results[i] == errZZFault || results[i] == ErrClosed, "writer-gets-nil-fault-or-closed")
		_, err := mem.Get(makeInternalKey(nil, []byte{byte('a' + i)}, keyMaxSeq, keyTypeSeek))
		_ = err
	}
	// acknowledged writes are in the buffer, with distinct sequence numbers
	acked := 0
	for i := 0; i < nw; i++ {
		if results[i] == nil {
			acked++
			_, _, err := mem.Find(makeInternalKey(nil, []byte{byte('a' + i)}, keyMaxSeq, keyTypeSeek))
			vpAssert(err == nil, "acknowledged-write-is-in-the-buffer")
		}
	}
	vpAssert(mem.Len() >= acked, "buffer-holds-the-acknowledged-writes")
}

// C05-batch (kernel): a reader never sees part of a batch. One thread writes a
// two-record batch through the real DB.Write; a reader thread takes a snapshot
// sequence (the real acquireSnapshot) and reads both keys at it through the
// real DB.get, under every interleaving at synchronisation operations within
// the switch bound: it sees both records or neither; a read that starts after
// Write returned sees both.
func ZZ_C05_batch_atomic() {
	zzGroups, zzInGroup = nil, 0
	zzFreeSmall = false
	zzJournalFail = make([]bool, 2)
	db := zzMergeDB()
	db.snapsList = list.New()
	wrote := 0
	go func() {
		b := new(Batch)
		b.Put([]byte("k1"), []byte("v"))
		b.Put([]byte("k2"), []byte("v"))
		vpAssert(db.Write(b, nil) == nil, "write-ok")
		wrote++
	}()
	go func() {
		wroteBefore := wrote == 1
		se := db.acquireSnapshot()
		_, e1 := db.get(nil, nil, []byte("k1"), se.seq, nil)
		_, e2 := db.get(nil, nil, []byte("k2"), se.seq, nil)
		db.releaseSnapshot(se)
		vpAssert((e1 == nil) == (e2 == nil), "reader-sees-the-whole-batch-or-nothing")
		vpAssert(e1 == nil || e1 == ErrNotFound, "read-error-kind")
		if wroteBefore {
			vpAssert(e1 == nil && e2 == nil, "read-after-write-returned-sees-the-batch")
		}
	}()
	vpJoin()
}
