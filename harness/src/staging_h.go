package leveldb

// C06-staging: applying an edit (session record) to a well-formed version
// yields a well-formed version: each level is survivors + added files, each
// once; levels >= 1 stay sorted and disjoint; level 0 is ordered newest file
// first; the base version is not mutated.

import (
	"github.com/syndtr/goleveldb/leveldb/opt"
	"github.com/syndtr/goleveldb/leveldb/storage"
)

func zzUKey1() []byte { return []byte{vpNondetU8()} }

func zzNumFile(num int64, lo, hi []byte) *tFile {
	f := zzFile(num, lo, hi)
	f.fd = storage.FileDesc{Type: storage.TypeTable, Num: num}
	f.size = 1
	return f
}

func zzStaging(which int, trivial bool) {
	s := &session{stor: newIStorage(storage.NewMemStorage())} // logging goes to the storage
	s.setOptions(&opt.Options{Comparer: zzCmp(which)})
	icmp := s.icmp
	// base: level 0 with file numbers descending, level 1 sorted and disjoint
	n0 := vpChoose(3)
	var l0 tFiles
	for i := 0; i < n0; i++ {
		lo, hi := zzUKey1(), zzUKey1()
		vpAssume(icmp.uCompare(lo, hi) <= 0)
		l0 = append(l0, zzNumFile(int64(20-i), lo, hi))
	}
	n1 := vpChoose(zzFiles + 1)
	var l1 tFiles
	for i := 0; i < n1; i++ {
		lo, hi := zzUKey1(), zzUKey1()
		vpAssume(icmp.uCompare(lo, hi) <= 0)
		if i > 0 {
			vpAssume(icmp.uCompare(l1[i-1].imax.ukey(), lo) < 0)
		}
		l1 = append(l1, zzNumFile(int64(30+i), lo, hi))
	}
	base := &version{s: s, levels: []tFiles{l0, l1}}
	snap0 := append(tFiles(nil), l0...)
	snap1 := append(tFiles(nil), l1...)

	rec := &sessionRecord{}
	// delete any subset of level 1, possibly one level-0 file
	dead := map[int64]bool{}
	for _, t := range l1 {
		if vpChoose(2) == 1 {
			rec.delTable(1, t.fd.Num)
			dead[t.fd.Num] = true
		}
	}
	if n0 > 0 && vpChoose(2) == 1 {
		rec.delTable(0, l0[n0-1].fd.Num) // the oldest level-0 file (compaction input)
		dead[l0[n0-1].fd.Num] = true
	}
	var surv1 tFiles
	for _, t := range l1 {
		if !dead[t.fd.Num] {
			surv1 = append(surv1, t)
		}
	}
	// add up to two files to level 1: mutually ordered, disjoint from survivors
	na := vpChoose(3)
	var add1 tFiles
	for i := 0; i < na; i++ {
		lo, hi := zzUKey1(), zzUKey1()
		vpAssume(icmp.uCompare(lo, hi) <= 0)
		if i > 0 {
			vpAssume(icmp.uCompare(add1[i-1].imax.ukey(), lo) < 0)
		}
		for _, t := range surv1 {
			vpAssume(vpOr(icmp.uCompare(hi, t.imin.ukey()) < 0, icmp.uCompare(t.imax.ukey(), lo) < 0))
		}
		add1 = append(add1, zzNumFile(int64(40+i), lo, hi))
	}
	if trivial && na == 2 {
		// compaction outputs are contiguous: no surviving file lies between them
		// (they tile the hull of the inputs, all of which are deleted)
		for _, t := range surv1 {
			vpAssume(!vpAnd(icmp.uCompare(add1[0].imax.ukey(), t.imin.ukey()) < 0, icmp.uCompare(t.imax.ukey(), add1[1].imin.ukey()) < 0))
		}
	}
	// the record lists added files in any order
	if na == 2 && vpChoose(2) == 1 {
		rec.addTableFile(1, add1[1])
		rec.addTableFile(1, add1[0])
	} else {
		for _, t := range add1 {
			rec.addTableFile(1, t)
		}
	}
	// optionally a new level-0 file (memtable flush): newest file number
	add0 := vpChoose(2) == 1
	if add0 {
		lo, hi := zzUKey1(), zzUKey1()
		vpAssume(icmp.uCompare(lo, hi) <= 0)
		rec.addTableFile(0, zzNumFile(50, lo, hi))
	}

	nv := base.spawn(rec, trivial)

	// level 1: survivors + added, each once, sorted, disjoint
	var got1 tFiles
	if len(nv.levels) > 1 {
		got1 = nv.levels[1]
	}
	vpAssert(len(got1) == len(surv1)+na, "level1-count")
	for _, t := range surv1 {
		c := 0
		for _, g := range got1 {
			if g == t {
				c++
			}
		}
		vpAssert(c == 1, "level1-survivor-once")
	}
	for _, t := range add1 {
		c := 0
		for _, g := range got1 {
			if g.fd.Num == t.fd.Num {
				c++
				vpAssert(vpEqBytes(g.imin, t.imin) && vpEqBytes(g.imax, t.imax), "level1-added-range-kept")
			}
		}
		vpAssert(c == 1, "level1-added-once")
	}
	for i := 1; i < len(got1); i++ {
		vpAssert(icmp.uCompare(got1[i-1].imax.ukey(), got1[i].imin.ukey()) < 0, "level1-sorted-disjoint")
	}
	// level 0: newest first
	var got0 tFiles
	if len(nv.levels) > 0 {
		got0 = nv.levels[0]
	}
	want0 := n0
	if dead[int64(20-(n0-1))] && n0 > 0 {
		want0--
	}
	if add0 {
		want0++
	}
	vpAssert(len(got0) == want0, "level0-count")
	for i := 1; i < len(got0); i++ {
		vpAssert(got0[i-1].fd.Num > got0[i].fd.Num, "level0-newest-first")
	}
	// the base version is immutable
	vpAssert(len(base.levels[0]) == len(snap0) && len(base.levels[1]) == len(snap1), "base-lengths-unchanged")
	for i := range snap0 {
		vpAssert(base.levels[0][i] == snap0[i], "base-level0-unchanged")
	}
	for i := range snap1 {
		vpAssert(base.levels[1][i] == snap1[i], "base-level1-unchanged")
	}
}

func ZZ_C06_staging_sort()         { zzStaging(0, false) }
func ZZ_C06_staging_trivial()      { zzStaging(0, true) }
func ZZ_C06_staging_trivial_rev()  { zzStaging(1, true) }
func ZZ_C06_staging_sort_rev()     { zzStaging(1, false) }
