package leveldb

// C06-overlaps (also C01-overlap): tFiles.getOverlaps / overlaps return
// exactly the files whose user-key range meets the requested range, under
// every comparer — the completeness of compaction inputs rests on it.

import "github.com/syndtr/goleveldb/leveldb/comparer"

// user keys of length 0..1: the empty key is a legal key and a legal range bound
func zzUKey() []byte {
	if vpChoose(2) == 0 {
		return []byte{}
	}
	return []byte{vpNondetU8()}
}

func zzFile(num int64, lo, hi []byte) *tFile {
	return &tFile{imin: makeInternalKey(nil, lo, zzSeq(), zzKT()), imax: makeInternalKey(nil, hi, zzSeq(), zzKT())}
}

// zzSortedLevel: n files, sorted, pairwise disjoint in user-key space.
func zzSortedLevel(icmp *iComparer, n int) tFiles {
	var fs tFiles
	for i := 0; i < n; i++ {
		lo, hi := zzUKey(), zzUKey()
		vpAssume(icmp.uCompare(lo, hi) <= 0)
		if i > 0 {
			vpAssume(icmp.uCompare(fs[i-1].imax.ukey(), lo) < 0)
		}
		fs = append(fs, zzFile(int64(i), lo, hi))
	}
	return fs
}

func zzAnyLevel(icmp *iComparer, n int) tFiles {
	var fs tFiles
	for i := 0; i < n; i++ {
		lo, hi := zzUKey(), zzUKey()
		vpAssume(icmp.uCompare(lo, hi) <= 0)
		fs = append(fs, zzFile(int64(i), lo, hi))
	}
	return fs
}

func zzRange(icmp *iComparer) (umin, umax []byte) {
	switch vpChoose(4) {
	case 0:
	case 1:
		umin = zzUKey()
	case 2:
		umax = zzUKey()
	default:
		umin, umax = zzUKey(), zzUKey()
		vpAssume(icmp.uCompare(umin, umax) <= 0)
	}
	return
}

// specification of "file t meets [umin, umax]" (nil = unbounded)
func zzMeets(icmp *iComparer, t *tFile, umin, umax []byte) bool {
	a := true
	if umin != nil {
		a = icmp.uCompare(umin, t.imax.ukey()) <= 0
	}
	b := true
	if umax != nil {
		b = icmp.uCompare(t.imin.ukey(), umax) <= 0
	}
	return vpAnd(a, b)
}

func zzHas(fs tFiles, t *tFile) bool {
	for _, x := range fs {
		if x == t {
			return true
		}
	}
	return false
}

func zzOverlapsSorted(ucmp comparer.Comparer, n int) {
	icmp := &iComparer{ucmp}
	fs := zzSortedLevel(icmp, n)
	umin, umax := zzRange(icmp)
	got := fs.getOverlaps(nil, icmp, umin, umax, false)
	// exactly the files meeting the range, in level order
	k := 0
	for _, t := range fs {
		want := zzMeets(icmp, t, umin, umax)
		in := k < len(got) && got[k] == t
		if in {
			k++
		}
		vpAssert(in == want, "sorted-overlaps-exact")
	}
	vpAssert(k == len(got), "sorted-overlaps-no-extra")
	// the boolean form agrees
	any := false
	for _, t := range fs {
		any = vpOr(any, zzMeets(icmp, t, umin, umax))
	}
	vpAssert(fs.overlaps(icmp, umin, umax, false) == any, "sorted-overlaps-bool")
}

func zzOverlapsLevel0(ucmp comparer.Comparer, n int) {
	icmp := &iComparer{ucmp}
	fs := zzAnyLevel(icmp, n)
	umin, umax := zzRange(icmp)
	got := fs.getOverlaps(nil, icmp, umin, umax, true)
	// (1) every file meeting the requested range is included
	for _, t := range fs {
		vpAssert(vpImplies(zzMeets(icmp, t, umin, umax), zzHas(got, t)), "level0-includes-overlapping")
	}
	// (2) closed: a file outside the result meets no file of the result
	for _, t := range fs {
		if zzHas(got, t) {
			continue
		}
		for _, g := range got {
			vpAssert(!zzMeets(icmp, t, g.imin.ukey(), g.imax.ukey()), "level0-closed")
		}
	}
	// (3) each member is there for a reason: it meets the request or another member
	for _, g := range got {
		why := zzMeets(icmp, g, umin, umax)
		for _, h := range got {
			if h != g {
				why = vpOr(why, zzMeets(icmp, g, h.imin.ukey(), h.imax.ukey()))
			}
		}
		vpAssert(why, "level0-no-spurious")
	}
	any := false
	for _, t := range fs {
		any = vpOr(any, zzMeets(icmp, t, umin, umax))
	}
	vpAssert(fs.overlaps(icmp, umin, umax, true) == any, "level0-overlaps-bool")
}

func ZZ_C06_overlaps_sorted_bytewise() { zzOverlapsSorted(zzCmp(0), zzFiles) }
func ZZ_C06_overlaps_sorted_reverse()  { zzOverlapsSorted(zzCmp(1), zzFiles) }
func ZZ_C06_overlaps_sorted_rank()     { zzOverlapsSorted(zzCmp(2), zzFiles) }
func ZZ_C06_overlaps_l0_bytewise()     { zzOverlapsLevel0(zzCmp(0), zzFiles) }
func ZZ_C06_overlaps_l0_reverse()      { zzOverlapsLevel0(zzCmp(1), zzFiles) }
func ZZ_C06_overlaps_l0_rank()         { zzOverlapsLevel0(zzCmp(2), zzFiles) }

func ZZ_C06_overlaps_witness() {
	zzOverlapsSorted(zzCmp(0), 2)
	vpAssert(false, "witness")
}
