package leveldb

// C19: Recover rebuilds the DB from its table and journal files when the
// manifest (and its pointer) are gone: real recoverTable (table readers,
// optional rebuild through the real table writer, new manifest, commit) and
// real DB.recoverJournal over the real in-memory storage holding tables that
// were written by the real table writer from symbolic entries; afterwards the
// real read path must return exactly the logical contents.

import (
	"github.com/syndtr/goleveldb/leveldb/journal"
	"github.com/syndtr/goleveldb/leveldb/memdb"
	"github.com/syndtr/goleveldb/leveldb/opt"
	"github.com/syndtr/goleveldb/leveldb/storage"
	"github.com/syndtr/goleveldb/leveldb/table"
)

type zzTblInfo struct {
	num    int64
	ents   []zzEnt
	ends   []int // file offset after the block holding entry i (one entry per block)
	starts []int
}

// zzWriteTable writes entries (sorted by the internal comparer) as table file num.
func zzWriteTable(stor storage.Storage, o *opt.Options, num int64, ents []zzEnt) zzTblInfo {
	w, err := stor.Create(storage.FileDesc{Type: storage.TypeTable, Num: num})
	vpAssert(err == nil, "setup-table-create")
	tw := table.NewWriter(w, o, nil, 0)
	info := zzTblInfo{num: num, ents: ents}
	for _, e := range ents {
		info.starts = append(info.starts, tw.BytesLen())
		vpAssert(tw.Append(makeInternalKey(nil, e.u, e.seq, e.kt), e.v) == nil, "setup-table-append")
		info.ends = append(info.ends, tw.BytesLen())
	}
	vpAssert(tw.Close() == nil, "setup-table-close")
	w.Close()
	return info
}

func zzRecoverSetup(maxTables int, withJournal bool) (storage.Storage, *opt.Options, []zzTblInfo, []zzEnt) {
	zzAll = nil
	mem := storage.NewMemStorage()
	o := &opt.Options{Compression: opt.NoCompression, BlockSize: 1, BlockRestartInterval: 1}
	so := dupOptions(o)
	icmp := &iComparer{o.GetComparer()}
	so.Comparer = icmp
	var tables []zzTblInfo
	var all []zzEnt
	nt := 1 + vpChoose(maxTables)
	for t := 0; t < nt; t++ {
		n := 1 + vpChoose(zzPerFile)
		if t == 0 {
			n = zzFirstTable // at least two blocks, so that a damaged block leaves a table worth rebuilding
		}
		var ents []zzEnt
		var keys []internalKey
		for i := 0; i < n; i++ {
			e := zzNewEnt(0) // same depth: only "one sequence number per write" is assumed
			ik := makeInternalKey(nil, e.u, e.seq, e.kt)
			if i > 0 {
				vpAssume(icmp.Compare(keys[i-1], ik) < 0)
			}
			ents = append(ents, e)
			keys = append(keys, ik)
		}
		tables = append(tables, zzWriteTable(mem, so, int64(5+t), ents))
		all = append(all, ents...)
	}
	// a journal with writes newer than everything in the tables (settled shutdown)
	if withJournal && vpChoose(2) == 1 {
		var maxSeq uint64
		for _, e := range all {
			maxSeq = vpIteU64(e.seq > maxSeq, e.seq, maxSeq)
		}
		je := zzNewEnt(0)
		vpAssume(je.seq > maxSeq)
		zzPutJournalEnt(mem, 9, je)
		all = append(all, je)
	}
	return mem, o, tables, all
}

func zzPutJournalEnt(stor storage.Storage, num int64, e zzEnt) {
	w, err := stor.Create(storage.FileDesc{Type: storage.TypeJournal, Num: num})
	vpAssert(err == nil, "setup-journal-create")
	jw := journal.NewWriter(w)
	b := new(Batch)
	b.appendRec(e.kt, e.u, e.v)
	wr, _ := jw.Next()
	writeBatchesWithHeader(wr, []*Batch{b}, e.seq)
	jw.Close()
	w.Close()
}

func zzRecoverAndOpen(stor storage.Storage, o *opt.Options) (*DB, error) {
	s := zzSession(stor, 64<<20)
	s.setOptions(o)
	s.tops = newTableOps(s)
	if err := recoverTable(s, o); err != nil {
		return nil, err
	}
	db := &DB{s: s, seq: s.stSeqNum, memPool: make(chan *memdb.DB, 1)}
	if err := db.recoverJournal(); err != nil {
		return nil, err
	}
	return db, nil
}

func zzCheckContents(db *DB, all []zzEnt, skip int) {
	for k := byte(0); k < zzKeyDom; k++ {
		// newest entry of k
		found, isVal, best, bval := false, false, uint64(0), byte(0)
		for i, e := range all {
			if i == skip {
				continue
			}
			m := e.u[0] == k
			better := vpAnd(m, vpOr(!found, e.seq > best))
			best = vpIteU64(better, e.seq, best)
			isVal = vpOr(vpAnd(better, e.kt == keyTypeVal), vpAnd(!better, isVal))
			bval = vpIteU8(better, e.v[0], bval)
			found = vpOr(found, m)
		}
		v, err := db.get(nil, nil, []byte{k}, db.seq, nil)
		vpAssert(err == nil || err == ErrNotFound, "read-error-kind")
		vpAssert((err == nil) == vpAnd(found, isVal), "recovered-presence")
		if err == nil {
			vpAssert(len(v) == 1 && v[0] == bval, "recovered-value")
		}
	}
}

func ZZ_C19_recover() {
	mem, o, tables, all := zzRecoverSetup(2, true)
	db, err := zzRecoverAndOpen(mem, o)
	vpAssert(err == nil, "recover-succeeds")
	if err != nil {
		return
	}
	// every table is registered (level 0), with its size and first/last keys
	v := db.s.stVersion
	vpAssert(v.tLen(0) >= len(tables), "every-table-registered")
	for _, ti := range tables {
		var f *tFile
		for _, t := range v.levels[0] {
			if t.fd.Num == ti.num {
				f = t
			}
		}
		vpAssert(f != nil, "table-registered")
		if f != nil {
			first := makeInternalKey(nil, ti.ents[0].u, ti.ents[0].seq, ti.ents[0].kt)
			last := ti.ents[len(ti.ents)-1]
			vpAssert(vpEqBytes(f.imin, first) && vpEqBytes(f.imax, makeInternalKey(nil, last.u, last.seq, last.kt)), "recorded-range-is-first-and-last-entry")
		}
	}
	zzCheckContents(db, all, -1)
	zzCheckFileNums(mem, db)
}

// the recovered DB is an ordinary one: the next file number it hands out is
// above every file that exists (a reused number would overwrite a live table)
func zzCheckFileNums(stor storage.Storage, db *DB) {
	fds, _ := stor.List(storage.TypeAll)
	for _, fd := range fds {
		vpAssert(fd.Num < db.s.nextFileNum(), "next-file-number-above-every-existing-file")
	}
}

func ZZ_C19_witness() {
	ZZ_C19_recover()
	vpAssert(false, "witness")
}

// C19-dmg: one data block of one table is unreadable (any single byte of it
// altered). Recover still succeeds, every entry outside that block is served,
// nothing is invented.
func ZZ_C19_dmg() {
	mem, o, tables, all := zzRecoverSetup(zzDmgTables, false)
	// strictness settings that do not ask Recover to drop damaged tables
	switch vpChoose(3) {
	case 1:
		o.Strict = opt.StrictReader
	case 2:
		o.Strict = opt.StrictReader | opt.StrictBlockChecksum
	}
	t0 := tables[0]
	dataEnd := t0.ends[len(t0.ends)-1]
	d := vpChoose(dataEnd)
	blk := 0
	for i := range t0.ends {
		if d >= t0.starts[i] && d < t0.ends[i] {
			blk = i
		}
	}
	// alter the byte in place in the stored file
	fd := storage.FileDesc{Type: storage.TypeTable, Num: t0.num}
	r, err := mem.Open(fd)
	vpAssert(err == nil, "setup-open")
	size, _ := r.Seek(0, 2)
	buf := make([]byte, size)
	r.ReadAt(buf, 0)
	r.Close()
	nv := vpNondetU8()
	vpAssume(nv != buf[d])
	buf[d] = nv
	mem.Remove(fd)
	w, _ := mem.Create(fd)
	w.Write(buf)
	w.Close()

	db, err := zzRecoverAndOpen(mem, o)
	vpAssert(err == nil, "recover-succeeds-with-a-damaged-block")
	if err != nil {
		return
	}
	// table 0's entries come first in `all`
	zzCheckContents(db, all, blk)
	zzCheckFileNums(mem, db)
}

// C19-dmg-del: the rebuilt table keeps deletion markers. One table holds a
// deletion of k over an older value of k (each in its own block) and a third
// entry whose block is damaged; after Recover k stays deleted (Recover puts
// every table on level 0, so a dropped marker would resurrect the older
// value — from this table or from any other).
func ZZ_C19_dmg_del() {
	zzAll = nil
	mem := storage.NewMemStorage()
	o := &opt.Options{Compression: opt.NoCompression, BlockSize: 1, BlockRestartInterval: 1}
	so := dupOptions(o)
	icmp := &iComparer{o.GetComparer()}
	so.Comparer = icmp
	k := vpNondetU8()
	vpAssume(k < zzKeyDom-1)
	s1, s2, s3 := zzSmallSeq(), zzSmallSeq(), zzSmallSeq()
	vpAssume(s1 < s2)
	vpAssume(s3 != s1 && s3 != s2)
	ents := []zzEnt{
		{u: []byte{k}, seq: s2, kt: keyTypeDel, v: []byte{0}},
		{u: []byte{k}, seq: s1, kt: keyTypeVal, v: []byte{vpNondetU8()}},
		{u: []byte{k + 1}, seq: s3, kt: keyTypeVal, v: []byte{vpNondetU8()}},
	}
	ti := zzWriteTable(mem, so, 5, ents)
	d := ti.starts[2] + vpChoose(ti.ends[2]-ti.starts[2])
	fd := storage.FileDesc{Type: storage.TypeTable, Num: ti.num}
	r, err := mem.Open(fd)
	vpAssert(err == nil, "setup-open")
	size, _ := r.Seek(0, 2)
	buf := make([]byte, size)
	r.ReadAt(buf, 0)
	r.Close()
	nv := vpNondetU8()
	vpAssume(nv != buf[d])
	buf[d] = nv
	mem.Remove(fd)
	w, _ := mem.Create(fd)
	w.Write(buf)
	w.Close()
	db, err := zzRecoverAndOpen(mem, o)
	vpAssert(err == nil, "recover-succeeds-with-a-damaged-block")
	if err != nil {
		return
	}
	zzCheckContents(db, ents, 2)
	_, gerr := db.get(nil, nil, []byte{k}, db.seq, nil)
	vpAssert(gerr == ErrNotFound, "deleted-key-stays-deleted-after-rebuild")
}
