package leveldb

// C07-ref: the session's table-file reference tracker (refLoop) never removes
// a file that the current version or a pinned (still referenced) version
// needs, and removes every unneeded file exactly once when the pins are gone.
// The real refLoop runs as a thread and is driven through its real channels by
// the real version.incref/release and session.setVersion; maxCachedNumber is
// re-scaled to 2 so that the batching path and late deltas are reached;
// time.Since is nondeterministic (cached-time expiry).

import (
	"github.com/syndtr/goleveldb/leveldb/opt"
	"github.com/syndtr/goleveldb/leveldb/storage"
)

var zzRemovedFiles []int64
var zzNeeded func(num int64) bool
var zzCurrent *version

func (t *tOps) remove(fd storage.FileDesc) {
	vpAssert(!zzNeeded(fd.Num), "removed-file-not-needed-by-any-live-version")
	for _, n := range zzRemovedFiles {
		vpAssert(n != fd.Num, "file-removed-at-most-once")
	}
	zzRemovedFiles = append(zzRemovedFiles, fd.Num)
}

func zzHasFile(v *version, num int64) bool {
	for _, tt := range v.levels {
		for _, t := range tt {
			if t.fd.Num == num {
				return true
			}
		}
	}
	return false
}

func ZZ_C07_ref() {
	zzRemovedFiles, zzCurrent = nil, nil
	s := &session{
		stor:      newIStorage(storage.NewMemStorage()),
		refCh:     make(chan *vTask),
		relCh:     make(chan *vTask),
		deltaCh:   make(chan *vDelta),
		abandon:   make(chan int64),
		fileRefCh: make(chan chan map[int64]int),
		closeC:    make(chan struct{}),
	}
	s.setOptions(&opt.Options{})
	s.tops = &tOps{s: s}
	var pinned []*version
	var pinLive []bool
	zzNeeded = func(num int64) bool {
		// the version being installed counts as current from the moment
		// setVersion is called (it takes its reference first)
		if zzCurrent != nil && zzHasFile(zzCurrent, num) {
			return true
		}
		for i, p := range pinned {
			if pinLive[i] && zzHasFile(p, num) {
				return true
			}
		}
		return false
	}
	s.closeW.Add(1)
	go s.refLoop()
	// as in the real DB every file enters through an edit: start from the empty
	// version and add two files (what session.recover / the first flushes do)
	nextNum := int64(1)
	var all []int64
	v0 := newVersion(s)
	zzCurrent = v0
	s.setVersion(nil, v0)
	for i := 0; i < 2; i++ {
		rec := &sessionRecord{}
		f := zzNumFile(nextNum, []byte{byte('a' + i)}, []byte{byte('a' + i)})
		all = append(all, nextNum)
		nextNum++
		rec.addTableFile(1, f)
		nv := s.stVersion.spawn(rec, false)
		zzCurrent = nv
		s.setVersion(rec, nv)
	}
	for step := 0; step < zzRefOps; step++ {
		switch vpChoose(3) {
		case 0: // a compaction-style edit: drop one live file, add a new one
			cur := s.stVersion
			var live []*tFile
			for _, tt := range cur.levels {
				live = append(live, tt...)
			}
			rec := &sessionRecord{}
			if len(live) > 0 {
				victim := live[vpChoose(len(live))]
				rec.delTable(1, victim.fd.Num)
			}
			k := []byte{byte('k' + step)}
			nf := zzNumFile(nextNum, k, k)
			all = append(all, nextNum)
			nextNum++
			rec.addTableFile(1, nf)
			nv := cur.spawn(rec, false)
			zzCurrent = nv
			s.setVersion(rec, nv)
		case 1: // an iterator / snapshot read pins the current version
			pinned = append(pinned, s.version())
			pinLive = append(pinLive, true)
		default: // release any pin
			var idx []int
			for i := range pinned {
				if pinLive[i] {
					idx = append(idx, i)
				}
			}
			if len(idx) == 0 {
				vpAssume(false)
			}
			i := idx[vpChoose(len(idx))]
			pinLive[i] = false
			pinned[i].release()
		}
	}
	// wind down: release every pin, then synchronise with the loop
	for i := range pinned {
		if pinLive[i] {
			pinLive[i] = false
			pinned[i].release()
		}
	}
	// the loop batches work while fewer than maxCachedNumber versions are
	// outstanding; pushing that many further versions through flushes it
	for i := 0; i < zzFlushVersions; i++ {
		cur := s.stVersion
		rec := &sessionRecord{}
		nv := cur.spawn(rec, false)
		zzCurrent = nv
		s.setVersion(rec, nv)
	}
	ch := make(chan map[int64]int)
	s.fileRefCh <- ch
	refs := <-ch
	// completeness: everything not in the current version has been removed, once
	for _, num := range all {
		if zzHasFile(s.stVersion, num) {
			continue
		}
		cnt := 0
		for _, r := range zzRemovedFiles {
			if r == num {
				cnt++
			}
		}
		vpAssert(cnt == 1, "unneeded-file-removed-exactly-once")
	}
	_ = refs
	close(s.closeC)
	vpJoin()
}

func ZZ_C07_witness() {
	ZZ_C07_ref()
	vpAssert(false, "witness")
}

// C07-commit: the same tracker driven through the real session.commit (real
// manifest, with and without manifest rotation on every commit): after any
// sequence of flush-style and compaction-style commits every table that left
// the live set is removed exactly once and the tracker keeps no
// reference for it (no leak through an over-referenced version).
func ZZ_C07_commit_ref() {
	zzRemovedFiles, zzCurrent = nil, nil
	s := &session{
		stor:      newIStorage(storage.NewMemStorage()),
		refCh:     make(chan *vTask),
		relCh:     make(chan *vTask),
		deltaCh:   make(chan *vDelta),
		abandon:   make(chan int64),
		fileRefCh: make(chan chan map[int64]int),
		closeC:    make(chan struct{}),
	}
	maxm := int64(64 << 20)
	if vpChoose(2) == 1 {
		maxm = 1 // every commit after the first starts a new manifest
	}
	s.setOptions(&opt.Options{MaxManifestFileSize: maxm})
	s.tops = &tOps{s: s}
	var pinned *version
	zzNeeded = func(num int64) bool {
		return zzHasFile(s.stVersion, num) || (pinned != nil && zzHasFile(pinned, num))
	}
	s.closeW.Add(1)
	go s.refLoop()
	s.setVersion(nil, newVersion(s))
	vpAssert(s.create() == nil, "create-ok")
	var all []int64
	for step := 0; step < zzCommitOps; step++ {
		rec := &sessionRecord{}
		if vpChoose(2) == 1 { // compaction-style: drop any one live table
			var live []*tFile
			for _, tt := range s.stVersion.levels {
				live = append(live, tt...)
			}
			if len(live) > 0 {
				victim := live[vpChoose(len(live))]
				rec.delTable(1, victim.fd.Num)
			}
		}
		num := s.allocFileNum()
		k := []byte{byte('a' + step)}
		rec.addTableFile(1, zzNumFile(num, k, k))
		all = append(all, num)
		vpAssert(s.commit(rec, false) == nil, "commit-ok")
		if pinned == nil && vpChoose(2) == 1 {
			pinned = s.version()
		}
	}
	if pinned != nil {
		p := pinned
		pinned = nil
		p.release()
	}
	for i := 0; i < zzFlushVersions; i++ {
		vpAssert(s.commit(&sessionRecord{}, false) == nil, "flush-commit-ok")
	}
	ch := make(chan map[int64]int)
	s.fileRefCh <- ch
	refs := <-ch
	for _, num := range all {
		if zzHasFile(s.stVersion, num) {
			// (the count is 1, or 2 while the current version is held in full-reference mode)
			vpAssert(refs[num] >= 1, "live-table-is-referenced")
			continue
		}
		cnt := 0
		for _, r := range zzRemovedFiles {
			if r == num {
				cnt++
			}
		}
		vpAssert(cnt == 1, "dropped-table-removed-exactly-once")
		_, still := refs[num]
		vpAssert(!still, "no-reference-left-for-a-dropped-table")
	}
	s.manifest.Close()
	s.manifestWriter.Close()
	close(s.closeC)
	vpJoin()
}
