package leveldb

// C09-tcomp: the table-compaction command loop (the real DB.tCompaction, run
// as a thread) answers every waiting client for every schedule: a writer
// paused at the level-0 limit (compTriggerWait, what DB.flush and
// waitCompaction call), a range-compaction client (compTriggerRange), the
// memdb flush's pause/resume handshake (tcompPauseC), new level-0 tables
// arriving meanwhile (compTrigger), and Close at any point. A client that is
// never answered shows up as a deadlock. The version state the loop consults
// is abstracted to two counters (level-0 tables, pending deeper compactions).

import (
	"sync"

	"github.com/syndtr/goleveldb/leveldb/opt"
	"github.com/syndtr/goleveldb/leveldb/storage"
)

var zzL0, zzDeep int
var zzCompactions int

func (db *DB) tableNeedCompaction() bool { return zzL0 >= zzTrig || zzDeep > 0 }
func (db *DB) resumeWrite() bool         { return zzL0 < zzPause }

// one compaction step: a level-0 compaction takes any non-empty set of the
// level-0 tables, otherwise one deeper compaction is done; after Close the
// transaction may exit the goroutine (compactionExitTransact)
func (db *DB) tableAutoCompaction() {
	if !(zzL0 >= zzTrig || zzDeep > 0) {
		return
	}
	if db.isClosed() && vpChoose(2) == 1 {
		db.compactionExitTransact()
	}
	zzCompactions++
	if zzL0 >= zzTrig {
		d := vpNondetInt() // a level-0 compaction takes any non-empty set of the level-0 tables
		vpAssume(d >= 1 && d <= zzL0)
		zzL0 -= d
		if vpChoose(2) == 1 {
			zzDeep++
		}
	} else {
		zzDeep--
	}
}

func (db *DB) tableRangeCompaction(level int, umin, umax []byte) error {
	zzL0, zzDeep = 0, 0
	if vpChoose(2) == 1 {
		return errZZFault
	}
	return nil
}

func zzTcomp(clients int, withClose bool) {
	// symbolic counters: the loop's decisions on them are the solver's
	zzL0 = vpNondetInt()
	vpAssume(zzL0 >= 0 && zzL0 <= zzPause+1)
	zzDeep = vpNondetInt()
	vpAssume(zzDeep >= 0 && zzDeep <= 1)
	zzCompactions = 0
	s := &session{stor: newIStorage(storage.NewMemStorage())}
	s.setOptions(&opt.Options{})
	db := &DB{
		s:           s,
		tcompCmdC:   make(chan cCmd),
		tcompPauseC: make(chan chan<- struct{}),
		closeC:      make(chan struct{}),
		compPerErrC: make(chan error),
		compErrC:    make(chan error),
	}
	db.closeW.Add(1)
	go db.tCompaction()
	done := make([]int, clients)
	var wg sync.WaitGroup
	wg.Add(clients)
	res := make([]error, clients)
	kind := make([]int, clients)
	for i := 0; i < clients; i++ {
		i := i
		kind[i] = vpChoose(4)
		switch kind[i] {
		case 0: // a writer paused at the level-0 limit / waitCompaction
			go func() {
				res[i] = db.compTriggerWait(db.tcompCmdC)
				done[i]++
				wg.Done()
			}()
		case 1: // CompactRange
			go func() {
				res[i] = db.compTriggerRange(db.tcompCmdC, -1, nil, nil)
				done[i]++
				wg.Done()
			}()
		case 2: // the memdb flush: pause table compaction, add a level-0 table, resume, trigger
			go func() {
				resumeC := make(chan struct{})
				select {
				case db.tcompPauseC <- (chan<- struct{})(resumeC):
				case <-db.closeC:
					done[i]++
					wg.Done()
					return
				}
				zzL0++
				select {
				case <-resumeC:
					close(resumeC)
				case <-db.closeC:
					done[i]++
					wg.Done()
					return
				}
				db.compTrigger(db.tcompCmdC)
				done[i]++
				wg.Done()
			}()
		default: // a fire-and-forget trigger
			go func() {
				db.compTrigger(db.tcompCmdC)
				done[i]++
				wg.Done()
			}()
		}
	}
	if withClose {
		go func() {
			db.setClosed()
			close(db.closeC)
		}()
		vpJoin()
	} else {
		// wait for the clients, then shut the loop down
		wg.Wait()
		db.setClosed()
		close(db.closeC)
		vpJoin()
	}
	for i := 0; i < clients; i++ {
		vpAssert(done[i] == 1, "every-client-returns-once")
		if kind[i] == 0 {
			if withClose {
				vpAssert(res[i] == nil || res[i] == ErrClosed, "waiter-answered-nil-or-closed")
			} else {
				vpAssert(res[i] == nil, "waiter-answered-nil")
			}
		}
		if kind[i] == 1 && !withClose {
			vpAssert(res[i] == nil || res[i] == errZZFault, "range-client-gets-the-compaction-result")
		}
	}
}

func ZZ_C09_tcomp1()       { zzTcomp(1, false) }
func ZZ_C09_tcomp2()       { zzTcomp(2, false) }
func ZZ_C09_tcomp2_close() { zzTcomp(2, true) }
func ZZ_C09_tcomp1_close() { zzTcomp(1, true) }

func ZZ_C09_tcomp_witness() {
	zzTcomp(1, false)
	vpAssert(false, "witness")
}
