package filter

// C16-bloom: a key added to a bloom filter is always reported as possibly
// present, for every key set, bits-per-key setting, and reader setting.

import "github.com/syndtr/goleveldb/leveldb/util"

func zzBytes(maxLen int) []byte {
	n := vpChoose(maxLen + 1)
	b := make([]byte, n)
	for i := range b {
		b[i] = vpNondetU8()
	}
	return b
}

var zzBitsTable = []int{zzBitsList}

func zzBloom(nkeys int) {
	bits := zzBitsTable[vpChoose(len(zzBitsTable))]
	f := NewBloomFilter(bits)
	g := f.NewGenerator()
	keys := make([][]byte, nkeys)
	for i := range keys {
		keys[i] = zzBytes(zzKeyLen)
		g.Add(keys[i])
	}
	buf := &util.Buffer{}
	g.Generate(buf)
	data := buf.Bytes()
	// the reader may be configured with any other bits-per-key
	q := NewBloomFilter(zzBitsTable[vpChoose(len(zzBitsTable))])
	for i := range keys {
		vpAssert(q.Contains(data, keys[i]), "no-false-negative")
	}
	// generator is reusable: second filter from the same generator
	g.Add(keys[0])
	buf2 := &util.Buffer{}
	g.Generate(buf2)
	vpAssert(q.Contains(buf2.Bytes(), keys[0]), "no-false-negative-reuse")
}

func ZZ_C16_bloom1() { zzBloom(1) }
func ZZ_C16_bloom2() { zzBloom(2) }
func ZZ_C16_bloom3() { zzBloom(3) }

func ZZ_C16_bloom_witness() {
	zzBloom(1)
	vpAssert(false, "witness")
}
