package memdb

// C14: the in-memory table answers like a sorted map for any sequence of
// Put/Delete/Reset, and its iterators follow the cursor contract for any
// range and any movement sequence. randHeight is replaced (declaration-line
// rewrite) by a nondeterministic tower height 1..zzH; the real randHeight is
// checked separately to return 1..tMaxHeight.

import (
	"bytes"

	"github.com/syndtr/goleveldb/leveldb/comparer"
	"github.com/syndtr/goleveldb/leveldb/util"
)

func (p *DB) randHeight() int { return 1 + vpChoose(zzH) }

func zzBytes(minLen, maxLen int) []byte {
	n := minLen + vpChoose(maxLen-minLen+1)
	b := make([]byte, n)
	for i := range b {
		b[i] = vpNondetU8()
	}
	return b
}

// reference model: sorted association list
type zzModel struct {
	keys, vals [][]byte
}

func (m *zzModel) find(k []byte) (int, bool) {
	for i := range m.keys {
		c := bytes.Compare(m.keys[i], k)
		if c == 0 {
			return i, true
		}
		if c > 0 {
			return i, false
		}
	}
	return len(m.keys), false
}

func (m *zzModel) put(k, v []byte) {
	i, ok := m.find(k)
	if ok {
		m.vals[i] = v
		return
	}
	m.keys = append(m.keys, nil)
	m.vals = append(m.vals, nil)
	copy(m.keys[i+1:], m.keys[i:])
	copy(m.vals[i+1:], m.vals[i:])
	m.keys[i], m.vals[i] = k, v
}

func (m *zzModel) del(k []byte) bool {
	i, ok := m.find(k)
	if !ok {
		return false
	}
	m.keys = append(m.keys[:i], m.keys[i+1:]...)
	m.vals = append(m.vals[:i], m.vals[i+1:]...)
	return true
}

func (m *zzModel) size() int {
	s := 0
	for i := range m.keys {
		s += len(m.keys[i]) + len(m.vals[i])
	}
	return s
}

func zzBuild(nops, minVal, maxVal int) (*DB, *zzModel) {
	db := New(comparer.DefaultComparer, 0)
	m := &zzModel{}
	for i := 0; i < nops; i++ {
		k := zzBytes(zzMinKey, zzMaxKey)
		switch vpChoose(zzOpKinds) {
		case 0:
			v := zzBytes(minVal, maxVal)
			vpAssert(db.Put(k, v) == nil, "put-ok")
			m.put(k, v)
		case 1:
			err := db.Delete(k)
			had := m.del(k)
			vpAssert((err == nil) == had, "delete-result")
			vpAssert(err == nil || err == ErrNotFound, "delete-error-kind")
		default:
			db.Reset()
			m.keys, m.vals = nil, nil
		}
		vpAssert(db.Len() == len(m.keys), "len")
		vpAssert(db.Size() == m.size(), "size")
	}
	return db, m
}

func ZZ_C14_point() {
	db, m := zzBuild(zzOps, 0, zzMaxVal)
	k := zzBytes(zzMinKey, zzMaxKey)
	i, ok := m.find(k)
	v, err := db.Get(k)
	if ok {
		vpAssert(err == nil, "get-found")
		vpAssert(len(v) == len(m.vals[i]) && vpEqBytes(v, m.vals[i]), "get-value")
	} else {
		vpAssert(err == ErrNotFound, "get-notfound")
	}
	vpAssert(db.Contains(k) == ok, "contains")
	rk, rv, err := db.Find(k)
	if i < len(m.keys) {
		vpAssert(err == nil, "find-found")
		vpAssert(len(rk) == len(m.keys[i]) && vpEqBytes(rk, m.keys[i]), "find-key")
		vpAssert(len(rv) == len(m.vals[i]) && vpEqBytes(rv, m.vals[i]), "find-value")
	} else {
		vpAssert(err == ErrNotFound, "find-notfound")
	}
}

func ZZ_C14_iter() {
	db, m := zzBuild(zzOpsIter, 1, 1)
	var rg *util.Range
	switch vpChoose(4) {
	case 0:
	case 1:
		rg = &util.Range{Start: zzBytes(0, zzMaxKey)}
	case 2:
		rg = &util.Range{Limit: zzBytes(0, zzMaxKey)}
	default:
		rg = &util.Range{Start: zzBytes(0, zzMaxKey), Limit: zzBytes(0, zzMaxKey)}
	}
	// the model list restricted to the range
	var K, V [][]byte
	for i := range m.keys {
		if rg != nil && rg.Start != nil && bytes.Compare(m.keys[i], rg.Start) < 0 {
			continue
		}
		if rg != nil && rg.Limit != nil && bytes.Compare(m.keys[i], rg.Limit) >= 0 {
			continue
		}
		K = append(K, m.keys[i])
		V = append(V, m.vals[i])
	}
	n := len(K)
	it := db.NewIterator(rg)
	p := -1
	for step := 0; step < zzMoves; step++ {
		var ok bool
		switch vpChoose(5) {
		case 0:
			ok = it.First()
			p = 0
		case 1:
			ok = it.Last()
			p = n - 1
		case 2:
			ok = it.Next()
			if p < n {
				p++
			}
		case 3:
			ok = it.Prev()
			if p > -1 {
				p--
			}
		default:
			sk := zzBytes(0, zzMaxKey)
			ok = it.Seek(sk)
			p = n
			for i := range K {
				if bytes.Compare(K[i], sk) >= 0 {
					p = i
					break
				}
			}
		}
		valid := p >= 0 && p < n
		vpAssert(ok == valid, "move-result")
		vpAssert(it.Valid() == valid, "valid")
		if valid {
			vpAssert(len(it.Key()) == len(K[p]) && vpEqBytes(it.Key(), K[p]), "iter-key")
			vpAssert(len(it.Value()) == len(V[p]) && vpEqBytes(it.Value(), V[p]), "iter-value")
		} else {
			vpAssert(it.Key() == nil && it.Value() == nil, "iter-nil-when-invalid")
		}
	}
	it.Release()
	vpAssert(!it.Next() && it.Error() == ErrIterReleased, "released")
}

func ZZ_C14_witness() {
	ZZ_C14_point()
	vpAssert(false, "witness")
}

// the real tower-height generator stays within the array bounds
func ZZ_C14_randheight() {
	db := New(comparer.DefaultComparer, 0)
	h := db.randHeight__orig()
	vpAssert(h >= 1 && h <= tMaxHeight, "randheight-range")
}

// ---- C14-conc: readers and iterators beside one writer ----
// Interleaving is at lock granularity: every RWMutex operation is a
// scheduling point, each API call is one critical section. The reader must
// never crash, never see keys go backwards on Next, and only see pairs that
// some Put stored.
func ZZ_C14_conc() {
	db := New(comparer.DefaultComparer, 0)
	// some initial content
	db.Put([]byte{10}, []byte{1})
	db.Put([]byte{20}, []byte{2})
	type pair struct{ k, v byte }
	stored := []pair{{10, 1}, {20, 2}}
	nw := zzConcWrites
	wk := make([]byte, nw)
	wv := make([]byte, nw)
	wdel := make([]bool, nw)
	for i := 0; i < nw; i++ {
		wk[i] = vpNondetU8()
		wv[i] = vpNondetU8()
		wdel[i] = vpChoose(2) == 1
		if !wdel[i] {
			stored = append(stored, pair{wk[i], wv[i]})
		}
	}
	go func() {
		for i := 0; i < nw; i++ {
			if wdel[i] {
				db.Delete([]byte{wk[i]})
			} else {
				db.Put([]byte{wk[i]}, []byte{wv[i]})
			}
		}
	}()
	// reader: one iterator, a few moves, plus point reads
	it := db.NewIterator(nil)
	var last int
	haveLast := false
	for step := 0; step < zzConcMoves; step++ {
		var ok bool
		next := false
		switch vpChoose(3) {
		case 0:
			ok = it.Next()
			next = true
		case 1:
			ok = it.Seek([]byte{vpNondetU8()})
		default:
			ok = it.First()
		}
		if ok {
			k, v := it.Key(), it.Value()
			vpAssert(len(k) == 1 && len(v) == 1, "yielded-pair-shape")
			was := false
			for _, p := range stored {
				was = vpOr(was, vpAnd(p.k == k[0], p.v == v[0]))
			}
			vpAssert(was, "yielded-pair-was-stored")
			if next && haveLast {
				vpAssert(int(k[0]) > last, "next-yields-strictly-larger-key")
			}
			last, haveLast = int(k[0]), true
		} else {
			haveLast = false
		}
		if vpChoose(2) == 1 {
			q := vpNondetU8()
			v, err := db.Get([]byte{q})
			if err == nil {
				was := false
				for _, p := range stored {
					was = vpOr(was, vpAnd(p.k == q, len(v) == 1 && p.v == v[0]))
				}
				vpAssert(was, "get-returns-a-stored-value")
			}
		}
	}
	vpJoin()
}

// C14-stable: what a reader was handed stays a pair that was stored. The
// buffer's data is append-only: a slice returned by Get/Find or shown by an
// iterator keeps its contents through any later write, including an overwrite
// of the same key with a shorter, equal or longer value (readers copy such
// slices after the lock is dropped, beside a running writer).
func ZZ_C14_stable() {
	db, m := zzBuild(2, 0, zzMaxVal)
	k := zzBytes(zzMinKey, zzMaxKey)
	_, ok := m.find(k)
	if !ok {
		vpAssume(false)
	}
	v, err := db.Get(k)
	vpAssert(err == nil, "get-found")
	it := db.NewIterator(nil)
	vpAssert(it.Seek(k), "iterator-finds-it")
	iv := it.Value()
	saved := append([]byte(nil), v...)
	// any later write
	k2 := k
	if vpChoose(2) == 1 {
		k2 = zzBytes(zzMinKey, zzMaxKey)
	}
	vpAssert(db.Put(k2, zzBytes(0, zzMaxVal)) == nil, "put-ok")
	vpAssert(len(v) == len(saved) && vpEqBytes(v, saved), "value-handed-out-by-get-stays-a-stored-pair")
	vpAssert(len(iv) == len(saved) && vpEqBytes(iv, saved), "value-shown-by-iterator-stays-a-stored-pair")
	it.Release()
}
