package iterator

// C02-merged / C02-indexed: the merging and the two-level iterator follow the
// cursor contract over the union / concatenation of their children for any
// movement sequence. Children are the real array iterators.

import (
	"sort"

	"github.com/syndtr/goleveldb/leveldb/comparer"
)

type zzArr struct{ keys, vals [][]byte }

func (a *zzArr) Len() int { return len(a.keys) }
func (a *zzArr) Search(key []byte) int {
	return sort.Search(len(a.keys), func(i int) bool { return comparer.DefaultComparer.Compare(a.keys[i], key) >= 0 })
}
func (a *zzArr) Index(i int) (key, value []byte) { return a.keys[i], a.vals[i] }

type zzCursor struct {
	K, V [][]byte
	p    int
}

func zzWalk(it Iterator, K, V [][]byte, moves int) {
	m := len(K)
	p := -1
	for step := 0; step < moves; step++ {
		var ok bool
		switch vpChoose(5) {
		case 0:
			ok = it.First()
			p = 0
		case 1:
			ok = it.Last()
			p = m - 1
		case 2:
			ok = it.Next()
			if p < m {
				p++
			}
		case 3:
			ok = it.Prev()
			if p > -1 {
				p--
			}
		default:
			sk := []byte{vpNondetU8()}
			ok = it.Seek(sk)
			p = m
			for i := range K {
				if comparer.DefaultComparer.Compare(K[i], sk) >= 0 {
					p = i
					break
				}
			}
		}
		valid := p >= 0 && p < m
		vpAssert(it.Error() == nil, "no-error")
		vpAssert(ok == valid, "move-result")
		vpAssert(it.Valid() == valid, "valid")
		if valid {
			vpAssert(len(it.Key()) == len(K[p]) && vpEqBytes(it.Key(), K[p]), "iter-key")
			vpAssert(len(it.Value()) == len(V[p]) && vpEqBytes(it.Value(), V[p]), "iter-value")
		} else {
			vpAssert(it.Key() == nil && it.Value() == nil, "iter-nil-when-invalid")
		}
	}
	it.Release()
	vpAssert(!it.Next() && it.Error() == ErrIterReleased, "released")
}

// n distinct one-byte keys in increasing order, distributed over c children.
func zzMerged(n, c int) {
	arrs := make([]*zzArr, c)
	for i := range arrs {
		arrs[i] = &zzArr{}
	}
	var K, V [][]byte
	for i := 0; i < n; i++ {
		k := []byte{vpNondetU8()}
		v := []byte{vpNondetU8()}
		if i > 0 {
			vpAssume(K[i-1][0] < k[0])
		}
		K = append(K, k)
		V = append(V, v)
		a := arrs[vpChoose(c)]
		a.keys = append(a.keys, k)
		a.vals = append(a.vals, v)
	}
	its := make([]Iterator, c)
	for i := range arrs {
		its[i] = NewArrayIterator(arrs[i])
	}
	zzWalk(NewMergedIterator(its, comparer.DefaultComparer, true), K, V, zzMoves)
}

func ZZ_C02_merged_2x2() { zzMerged(2, 2) }
func ZZ_C02_merged_3x2() { zzMerged(3, 2) }
func ZZ_C02_merged_3x3() { zzMerged(3, 3) }
func ZZ_C02_merged_4x3() { zzMerged(4, 3) }

// ---- indexed ----

type zzIndexer struct {
	subs []*zzArr
	seps [][]byte // seps[i] >= every key of subs[i], < every key of subs[i+1]
}

func (x *zzIndexer) Len() int { return len(x.subs) }
func (x *zzIndexer) Search(key []byte) int {
	return sort.Search(len(x.subs), func(i int) bool { return comparer.DefaultComparer.Compare(x.seps[i], key) >= 0 })
}
func (x *zzIndexer) Get(i int) Iterator { return NewArrayIterator(x.subs[i]) }

func zzIndexed(c, maxPer int) {
	x := &zzIndexer{}
	var K, V [][]byte
	var prev *byte
	for i := 0; i < c; i++ {
		a := &zzArr{}
		nk := vpChoose(maxPer + 1)
		for j := 0; j < nk; j++ {
			k := []byte{vpNondetU8()}
			v := []byte{vpNondetU8()}
			if prev != nil {
				vpAssume(*prev < k[0])
			}
			prev = &k[0]
			a.keys = append(a.keys, k)
			a.vals = append(a.vals, v)
			K = append(K, k)
			V = append(V, v)
		}
		s := []byte{vpNondetU8()}
		if prev != nil {
			vpAssume(*prev <= s[0])
		}
		prev = &s[0]
		x.subs = append(x.subs, a)
		x.seps = append(x.seps, s)
	}
	zzWalk(NewIndexedIterator(NewArrayIndexer(x), true), K, V, zzMoves)
}

func ZZ_C02_indexed_2() { zzIndexed(2, 2) }
func ZZ_C02_indexed_3() { zzIndexed(3, 2) }

func ZZ_C02_iter_witness() {
	zzMerged(2, 2)
	vpAssert(false, "witness")
}
