package leveldb

// C08-jread: a storage READ error while the journal is replayed at Open is
// never mistaken for corruption: with default (non-strict) options Open either
// fails, or succeeds and serves every acknowledged record; a later undisturbed
// Open serves every record. The journal block size is re-scaled so that a
// record spans blocks and the fault can hit the first block read, a
// continuation block, or the end-of-file probe.

import (
	"github.com/syndtr/goleveldb/leveldb/storage"
)

type zzReadFaultStor struct {
	storage.Storage
	reads  int // journal Read calls so far
	failAt int // this Read call fails once (-1: never)
	failed bool
}

type zzReadFaultReader struct {
	storage.Reader
	s *zzReadFaultStor
}

func (s *zzReadFaultStor) Open(fd storage.FileDesc) (storage.Reader, error) {
	r, err := s.Storage.Open(fd)
	if err != nil || fd.Type != storage.TypeJournal {
		return r, err
	}
	return &zzReadFaultReader{r, s}, nil
}

func (r *zzReadFaultReader) Read(p []byte) (int, error) {
	n := r.s.reads
	r.s.reads++
	if n == r.s.failAt {
		r.s.failed = true
		return 0, errZZFault
	}
	return r.Reader.Read(p)
}

func ZZ_C08_journal_readfault() {
	mem := storage.NewMemStorage()
	s0 := zzSession(mem, 64<<20)
	vpAssert(s0.create() == nil, "setup-create")
	s0.markFileNum(4)
	rec := &sessionRecord{}
	rec.setJournalNum(3)
	rec.setSeqNum(0)
	vpAssert(s0.commit(rec, false) == nil, "setup-commit")
	s0.manifest.Close()
	s0.manifestWriter.Close()
	// three acknowledged single-record batches; each spans two or more blocks
	zzPutJournal(mem, 3, 1, [][2]string{{"a", "1"}, {"b", "2"}, {"c", "3"}})

	cs := &zzCrashStor{Storage: mem, crashAt: -1} // tracks open files so that they can be closed ("process exit")
	fs := &zzReadFaultStor{Storage: cs, failAt: vpChoose(zzReadPoints+1) - 1}
	db1, err1 := zzOpenDB(fs)
	if !fs.failed {
		vpAssert(err1 == nil, "undisturbed-open-succeeds")
		vpAssert(fs.reads <= zzReadPoints, "read-fault-bound-covers-the-whole-replay")
	}
	check := func(db *DB, id string) {
		for _, kv := range [][2]string{{"a", "1"}, {"b", "2"}, {"c", "3"}} {
			v, err := db.get(nil, nil, []byte(kv[0]), db.seq, nil)
			vpAssert(err == nil && string(v) == kv[1], id)
		}
	}
	if err1 == nil {
		check(db1, "open-that-succeeds-serves-every-acknowledged-record")
	}
	cs.reap()
	// a later undisturbed Open
	db2, err2 := zzOpenDB(&zzReadFaultStor{Storage: mem, failAt: -1})
	vpAssert(err2 == nil, "later-open-succeeds")
	if err2 == nil {
		check(db2, "later-open-serves-every-acknowledged-record")
	}
}

func ZZ_C08_jread_witness() {
	ZZ_C08_journal_readfault()
	vpAssert(false, "witness")
}
