package leveldb

// C08-seq (also C04-journal): sequence discipline through failing journal
// writes. Real Put -> writeLocked -> writeJournal -> journal.Writer over a
// sink whose Write/Sync fail at symbolic points; then the journal bytes are
// replayed the way recovery does (journal.Reader + decodeBatchToMem chained by
// the expected sequence). Every acknowledged write must be there after replay.

import (
	"bytes"
	"io"

	"github.com/syndtr/goleveldb/leveldb/journal"
	"github.com/syndtr/goleveldb/leveldb/memdb"
	"github.com/syndtr/goleveldb/leveldb/opt"
	"github.com/syndtr/goleveldb/leveldb/util"
)

type zzFaultySink struct {
	data      []byte
	failWrite []bool
	failSync  []bool
	nw, ns    int
}

func (s *zzFaultySink) Write(p []byte) (int, error) {
	i := s.nw
	s.nw++
	if i < len(s.failWrite) && s.failWrite[i] {
		return 0, errZZFault
	}
	s.data = append(s.data, p...)
	return len(p), nil
}
func (s *zzFaultySink) Sync() error {
	i := s.ns
	s.ns++
	if i < len(s.failSync) && s.failSync[i] {
		return errZZFault // the bytes are already in the file
	}
	return nil
}
func (s *zzFaultySink) Close() error { return nil }

type zzNoDrop struct{}

func (zzNoDrop) Drop(err error) {}

func zzSeqFault(n int) {
	db, _ := zzWriteDB()
	sink := &zzFaultySink{}
	for i := 0; i < n; i++ {
		sink.failWrite = append(sink.failWrite, vpNondetBool())
		sink.failSync = append(sink.failSync, vpNondetBool())
	}
	db.journal = journal.NewWriter(sink)
	db.journalWriter = sink
	seq0 := db.seq
	res := make([]error, n)
	for i := 0; i < n; i++ {
		if vpChoose(2) == 0 {
			res[i] = db.Put([]byte{byte('a' + i)}, []byte{byte('A' + i)}, &opt.WriteOptions{Sync: true})
		} else {
			// a batch of several records (their sequence numbers form a range)
			b := new(Batch)
			b.Put([]byte{byte('a' + i)}, []byte{byte('A' + i)})
			b.Put([]byte{byte('p' + i)}, []byte{byte('P' + i)})
			b.Delete([]byte{byte('x' + i)})
			res[i] = db.Write(b, &opt.WriteOptions{Sync: true, NoWriteMerge: true})
		}
		vpAssert(len(db.writeLockC) == 0, "write-lock-released")
		// running DB: acknowledged iff readable
		_, gerr := db.get(nil, nil, []byte{byte('a' + i)}, db.seq, nil)
		vpAssert((gerr == nil) == (res[i] == nil), "acknowledged-iff-readable-now")
	}
	// recovery: replay the journal file as recoverJournal does (tolerant reader, checksums on)
	mdb := memdb.New(db.s.icmp, 1<<16)
	jr := journal.NewReader(bytes.NewReader(sink.data), zzNoDrop{}, false, true)
	expect := seq0
	buf := &util.Buffer{}
	for {
		r, err := jr.Next()
		if err == io.EOF {
			break
		}
		vpAssert(err == nil, "tolerant-reader-never-errors")
		buf.Reset()
		if _, err := buf.ReadFrom(r); err != nil {
			continue
		}
		bseq, blen, derr := decodeBatchToMem(buf.Bytes(), expect, mdb)
		if derr != nil {
			continue // recovery skips a batch it considers corrupted
		}
		expect = bseq + uint64(blen)
	}
	for i := 0; i < n; i++ {
		if res[i] == nil {
			rk, _, ferr := mdb.Find(makeInternalKey(nil, []byte{byte('a' + i)}, keyMaxSeq, keyTypeSeek))
			found := ferr == nil && len(rk) == 9 && rk[0] == byte('a'+i)
			vpAssert(found, "acknowledged-write-survives-replay")
		}
	}
}

func ZZ_C08_seq2() { zzSeqFault(2) }
func ZZ_C08_seq3() { zzSeqFault(3) }

func ZZ_C08_witness() {
	zzSeqFault(2)
	vpAssert(false, "witness")
}
