package filter

// C16-bloom with the hash abstracted: bloomHash is replaced (source rewrite of
// its declaration line only) by an arbitrary function of the key — a table of
// free 32-bit values indexed by a one-byte key tag. Whatever util.Hash
// computes for keys of any length is one instance of this table, so the
// result covers every key set of the given size.

import "github.com/syndtr/goleveldb/leveldb/util"

var zzHashes [8]uint32

func bloomHash(key []byte) uint32 { return zzHashes[key[0]] }

var zzBitsTable = []int{zzBitsList}

func zzBloomAbs(nkeys int) {
	bits := zzBitsTable[vpChoose(len(zzBitsTable))]
	f := NewBloomFilter(bits)
	g := f.NewGenerator()
	for i := 0; i < nkeys; i++ {
		zzHashes[i] = vpNondetU32()
		g.Add([]byte{byte(i)})
	}
	buf := &util.Buffer{}
	g.Generate(buf)
	data := buf.Bytes()
	q := NewBloomFilter(10)
	for i := 0; i < nkeys; i++ {
		vpAssert(q.Contains(data, []byte{byte(i)}), "no-false-negative")
	}
}

func ZZ_C16_bloomabs1() { zzBloomAbs(1) }
func ZZ_C16_bloomabs2() { zzBloomAbs(2) }
func ZZ_C16_bloomabs3() { zzBloomAbs(3) }
func ZZ_C16_bloomabs4() { zzBloomAbs(4) }
