package table

// C16-part: the filter-block partition lookup lands on the filter holding
// every key that was added while the corresponding data block was open.
// The filter policy is an exact-membership recorder (filter data = the list
// of one-byte key ids), so any mis-mapping of offset -> partition shows.

import (
	"encoding/binary"

	"github.com/syndtr/goleveldb/leveldb/filter"
)

type zzExactFilter struct{}

func (zzExactFilter) Name() string { return "zz.exact" }
func (zzExactFilter) Contains(f, key []byte) bool {
	for _, c := range f {
		if c == key[0] {
			return true
		}
	}
	return false
}
func (zzExactFilter) NewGenerator() filter.FilterGenerator { return &zzExactGen{} }

type zzExactGen struct{ keys []byte }

func (g *zzExactGen) Add(key []byte) { g.keys = append(g.keys, key[0]) }
func (g *zzExactGen) Generate(b filter.Buffer) {
	d := b.Alloc(len(g.keys))
	copy(d, g.keys)
	g.keys = g.keys[:0]
}

// zzDecodeFilterBlock repeats the trailer decoding of Reader.readFilterBlock
// (which itself needs a whole table; it is exercised by the table suite).
func zzDecodeFilterBlock(data []byte) *filterBlock {
	n := len(data)
	vpAssert(n >= 5, "filter-block-min-len")
	m := n - 5
	oOffset := int(binary.LittleEndian.Uint32(data[m:]))
	vpAssert(oOffset <= m, "filter-block-offsets-offset")
	return &filterBlock{data: data, oOffset: oOffset, baseLg: uint(data[n-1]), filtersNum: (m - oOffset) / 4}
}

func ZZ_C16_part() {
	baseLg := uint(1 + vpChoose(zzMaxBaseLg))
	unit := uint64(1) << baseLg
	w := &filterWriter{generator: zzExactFilter{}.NewGenerator(), baseLg: baseLg}
	w.flush(0) // as NewWriter does
	nblocks := 1 + vpChoose(zzMaxBlocks)
	type rec struct {
		off uint64
		key byte
	}
	var recs []rec
	off := uint64(0)
	id := byte(1)
	for b := 0; b < nblocks; b++ {
		nk := 1 + vpChoose(2)
		for k := 0; k < nk; k++ {
			w.add([]byte{id})
			recs = append(recs, rec{off, id})
			id++
		}
		// block size: any value in 1..4*unit (symbolic), so a block may end
		// before, at or after partition boundaries and span empty partitions
		size := vpNondetU64()
		vpAssume(size >= 1)
		vpAssume(size <= 4*unit)
		off += size
		w.flush(off)
	}
	vpAssert(w.finish() == nil, "finish-ok")
	fb := zzDecodeFilterBlock(w.buf.Bytes())
	vpAssert(fb.baseLg == baseLg, "baseLg-roundtrip")
	f := zzExactFilter{}
	for _, r := range recs {
		vpAssert(fb.contains(f, r.off, []byte{r.key}), "stored-key-found")
	}
	// a key never added is not reported by the exact filter at any block offset
	// it could be asked for (soundness of the recorder, and no stale partition)
	for _, r := range recs {
		vpAssert(!fb.contains(f, r.off, []byte{200}), "absent-key-not-found")
	}
}

func ZZ_C16_part_witness() {
	ZZ_C16_part()
	vpAssert(false, "witness")
}
