package cache

// C17-grow: Delete and Evict of a node whose handle is outstanding, racing
// with Gets that make the hash table grow (initial size and thresholds
// re-scaled so that the second and third node trigger a resize): the node is
// found whatever the interleaving (a frozen bucket means "retry in the new
// table", not "no such node"), and the deletion callback does not run before
// the handle is released.

func zzGrow(op int) {
	zzVals, zzHandles, zzForce = nil, nil, true
	c := NewCache(nil)
	mk := func() (int, Value) {
		v := &zzVal{id: len(zzVals)}
		zzVals = append(zzVals, v)
		return 1, v
	}
	h := c.Get(0, 0, mk)
	vpAssert(h != nil, "get-returns-handle")
	held := true
	cbRuns := 0
	go func() {
		if op == 0 {
			ok := c.Delete(0, 0, func() {
				cbRuns++
				vpAssert(!held, "delete-callback-never-while-handle-outstanding")
			})
			vpAssert(ok, "delete-finds-the-held-node")
		} else {
			c.Evict(0, 0) // no replacement policy here: reports false, but must not disturb the node
		}
		vpAssert(h.Value() != nil && h.Value().(*zzVal).released == 0, "held-value-stays-live")
		held = false
		h.Release()
	}()
	go func() {
		for k := uint64(1); k <= zzGrowKeys; k++ {
			g := c.Get(0, k, mk)
			vpAssert(g != nil, "get-returns-handle")
			g.Release()
		}
	}()
	vpJoin()
	if op == 0 {
		vpAssert(cbRuns == 1, "delete-callback-exactly-once")
		vpAssert(zzVals[0].released == 1, "deleted-value-finalised-exactly-once")
	}
	c.EvictAll()
	for _, v := range zzVals {
		vpAssert(v.released <= 1, "value-finalised-at-most-once")
	}
}

func ZZ_C17_grow_delete() { zzGrow(0) }
func ZZ_C17_grow_evict()  { zzGrow(1) }
