package leveldb

// C11-residue: a discarded transaction leaves nothing behind — neither visible
// data nor state that corrupts later reads. The real OpenTransaction, Put,
// flush (as when the transaction's buffer fills), Get, Discard, a second
// transaction's Put and Commit (real session.commit into a real manifest), and
// DB.Get run over an in-memory storage with the real table writer/reader, file
// cache and block cache.

import (
	"container/list"

	"github.com/syndtr/goleveldb/leveldb/memdb"
	"github.com/syndtr/goleveldb/leveldb/opt"
	"github.com/syndtr/goleveldb/leveldb/storage"
)

func zzResidue(readInTr bool) {
	mem := storage.NewMemStorage()
	s := zzSession(mem, 64<<20)
	s.setOptions(&opt.Options{Compression: opt.NoCompression, WriteBuffer: 64, BlockCacheEvictRemoved: vpChoose(2) == 1})
	s.tops = newTableOps(s)
	vpAssert(s.create() == nil, "setup-create")
	db := &DB{
		s:           s,
		seq:         10,
		snapsList:   list.New(),
		memPool:     make(chan *memdb.DB, 1),
		writeLockC:  make(chan struct{}, 1),
		closeC:      make(chan struct{}),
		compPerErrC: make(chan error),
		compErrC:    make(chan error),
	}
	db.mem = &memDB{db: db, DB: memdb.New(s.icmp, 64), ref: 1}
	k1, v1 := []byte{vpNondetU8()}, []byte{vpNondetU8()}
	k2, v2 := []byte{vpNondetU8()}, []byte{vpNondetU8()}

	tr, err := db.OpenTransaction()
	vpAssert(err == nil, "open-ok")
	vpAssert(tr.Put(k1, v1, nil) == nil, "tr-put-ok")
	vpAssert(tr.flush() == nil, "tr-flush-ok")
	vpAssert(len(tr.tables) == 1, "tr-flushed-a-table")
	if readInTr {
		got, gerr := tr.Get(k1, nil)
		vpAssert(gerr == nil && len(got) == 1 && got[0] == v1[0], "tr-reads-own-write")
	}
	tr.Discard()
	_, gerr := db.Get(k1, nil)
	vpAssert(gerr == ErrNotFound, "discarded-write-invisible")
	vpAssert(len(db.writeLockC) == 0 && db.tr == nil, "discard-releases-write-lock")
	fds, _ := mem.List(storage.TypeTable)
	vpAssert(len(fds) == 0, "discard-leaves-no-table-file")

	tr2, err := db.OpenTransaction()
	vpAssert(err == nil, "open2-ok")
	vpAssert(tr2.Put(k2, v2, nil) == nil, "tr2-put-ok")
	vpAssert(tr2.Commit() == nil, "tr2-commit-ok")
	got2, gerr2 := db.Get(k2, nil)
	vpAssert(gerr2 == nil && len(got2) == 1 && got2[0] == v2[0], "committed-write-readable-after-discarded-transaction")
	if k1[0] != k2[0] {
		_, gerr = db.Get(k1, nil)
		vpAssert(gerr == ErrNotFound, "discarded-write-stays-invisible")
	}
}

func ZZ_C11_residue()        { zzResidue(true) }
func ZZ_C11_residue_noread() { zzResidue(false) }

func ZZ_C11_residue_witness() {
	zzResidue(true)
	vpAssert(false, "witness")
}

// C11/C08: a Commit whose manifest syncs fail (0..3 times in a row; Commit
// retries three times) and, when it gave up, a Discard; then the process ends
// and the DB is reopened: the reopen succeeds, and the transaction's write is
// visible exactly when Commit reported success.
func ZZ_C11_failed_commit_reopen() {
	mem := storage.NewMemStorage()
	nfail := 0
	fs := &zzFaultStor{Storage: mem, failWrite: new(bool), failSync: new(bool), failSyncN: &nfail}
	cs := &zzCrashStor{Storage: fs, crashAt: -1} // tracks open handles ("process exit")
	s := zzSession(cs, 64<<20)
	s.setOptions(&opt.Options{Compression: opt.NoCompression, WriteBuffer: 64})
	s.tops = newTableOps(s)
	vpAssert(s.create() == nil, "setup-create")
	s.markFileNum(4)
	rec := &sessionRecord{}
	rec.setJournalNum(3)
	rec.setSeqNum(10)
	vpAssert(s.commit(rec, false) == nil, "setup-commit")
	zzPutJournal(mem, 3, 11, nil) // an empty current journal
	db := &DB{
		s:           s,
		seq:         10,
		snapsList:   list.New(),
		memPool:     make(chan *memdb.DB, 1),
		writeLockC:  make(chan struct{}, 1),
		closeC:      make(chan struct{}),
		compPerErrC: make(chan error),
		compErrC:    make(chan error),
	}
	db.mem = &memDB{db: db, DB: memdb.New(s.icmp, 64), ref: 1}
	k1, v1 := []byte{vpNondetU8()}, []byte{vpNondetU8()}
	tr, err := db.OpenTransaction()
	vpAssert(err == nil, "open-ok")
	vpAssert(tr.Put(k1, v1, nil) == nil, "tr-put-ok")
	nfail = vpChoose(4)
	cerr := tr.Commit()
	if cerr != nil {
		tr.Discard()
	}
	cs.reap()
	db2, err2 := zzOpenDB(&zzCrashStor{Storage: mem, crashAt: -1})
	vpAssert(err2 == nil, "reopen-after-failed-commit-and-discard-succeeds")
	if err2 != nil {
		return
	}
	vpAssert(db2.checkAndCleanFiles() == nil, "reopened-db-has-all-its-tables")
	got, gerr := db2.get(nil, nil, k1, db2.seq, nil)
	if cerr == nil {
		vpAssert(gerr == nil && len(got) == 1 && got[0] == v1[0], "committed-write-visible-after-reopen")
	} else {
		vpAssert(gerr == ErrNotFound, "discarded-write-invisible-after-reopen")
	}
}

// C07/C11: an iterator obtained from a transaction is still usable after
// Discard (documented); the discarded table's removal is deferred until the
// iterator is released. Meanwhile its file number is not handed out again (a
// new table would overwrite the file under the old reader), the file is
// removed exactly when the iterator lets go, and a table committed meanwhile
// is untouched.
func ZZ_C07_deferred_removal() {
	mem := storage.NewMemStorage()
	s := zzSession(mem, 64<<20)
	s.setOptions(&opt.Options{Compression: opt.NoCompression, WriteBuffer: 64, BlockCacheEvictRemoved: vpChoose(2) == 1, DisableSeeksCompaction: true})
	s.tops = newTableOps(s)
	vpAssert(s.create() == nil, "setup-create")
	db := &DB{
		s:           s,
		seq:         10,
		snapsList:   list.New(),
		memPool:     make(chan *memdb.DB, 1),
		writeLockC:  make(chan struct{}, 1),
		closeC:      make(chan struct{}),
		compPerErrC: make(chan error),
		compErrC:    make(chan error),
	}
	db.mem = &memDB{db: db, DB: memdb.New(s.icmp, 64), ref: 1}
	k1, v1 := []byte{vpNondetU8()}, []byte{vpNondetU8()}
	k2, v2 := []byte{vpNondetU8()}, []byte{vpNondetU8()}
	tr, err := db.OpenTransaction()
	vpAssert(err == nil, "open-ok")
	vpAssert(tr.Put(k1, v1, nil) == nil, "tr-put-ok")
	vpAssert(tr.flush() == nil && len(tr.tables) == 1, "tr-flushed-a-table")
	old := tr.tables[0].fd
	it := tr.NewIterator(nil, nil)
	vpAssert(it.First() && it.Key()[0] == k1[0] && it.Value()[0] == v1[0], "tr-iterator-reads-own-write")
	tr.Discard()
	exists := func(fd storage.FileDesc) bool {
		fds, _ := mem.List(storage.TypeTable)
		for _, f := range fds {
			if f == fd {
				return true
			}
		}
		return false
	}
	vpAssert(exists(old), "table-stays-while-an-iterator-uses-it")
	tr2, err := db.OpenTransaction()
	vpAssert(err == nil, "open2-ok")
	vpAssert(tr2.Put(k2, v2, nil) == nil, "tr2-put-ok")
	vpAssert(tr2.Commit() == nil, "tr2-commit-ok")
	var live storage.FileDesc
	for _, tt := range db.s.stVersion.levels {
		for _, t := range tt {
			live = t.fd
		}
	}
	vpAssert(live != old, "file-number-not-reused-while-removal-is-pending")
	// the old iterator still reads its own (discarded) data
	vpAssert(it.First() && it.Key()[0] == k1[0] && it.Value()[0] == v1[0], "old-iterator-still-reads-its-table")
	it.Release()
	vpAssert(!exists(old) || old == live, "discarded-table-removed-when-the-iterator-lets-go")
	vpAssert(exists(live), "committed-table-untouched")
	got2, gerr2 := db.Get(k2, nil)
	vpAssert(gerr2 == nil && len(got2) == 1 && got2[0] == v2[0], "committed-write-readable")
}

// C20-tr: a value returned by Transaction.Get is the caller's own copy, from
// the transaction's write buffer as well as from a table it flushed:
// overwriting it changes neither later reads nor what Commit stores.
func ZZ_C20_trget() {
	mem := storage.NewMemStorage()
	s := zzSession(mem, 64<<20)
	s.setOptions(&opt.Options{Compression: opt.NoCompression, WriteBuffer: 64})
	s.tops = newTableOps(s)
	vpAssert(s.create() == nil, "setup-create")
	db := &DB{
		s:           s,
		seq:         10,
		snapsList:   list.New(),
		memPool:     make(chan *memdb.DB, 1),
		writeLockC:  make(chan struct{}, 1),
		closeC:      make(chan struct{}),
		compPerErrC: make(chan error),
		compErrC:    make(chan error),
	}
	db.mem = &memDB{db: db, DB: memdb.New(s.icmp, 64), ref: 1}
	k := []byte{vpNondetU8()}
	v := []byte{vpNondetU8(), vpNondetU8()}
	want := append([]byte(nil), v...)
	tr, err := db.OpenTransaction()
	vpAssert(err == nil, "open-ok")
	vpAssert(tr.Put(k, v, nil) == nil, "tr-put-ok")
	vpHavoc(v) // the argument may be reused after Put returns
	if vpChoose(2) == 1 {
		vpAssert(tr.flush() == nil, "tr-flush-ok") // read from the flushed table instead of the buffer
	}
	got, gerr := tr.Get(k, nil)
	vpAssert(gerr == nil && len(got) == 2 && vpEqBytes(got, want), "tr-get-returns-the-stored-value")
	vpHavoc(got)
	got2, gerr2 := tr.Get(k, nil)
	vpAssert(gerr2 == nil && len(got2) == 2 && vpEqBytes(got2, want), "tr-get-result-is-a-private-copy")
	vpAssert(tr.Commit() == nil, "commit-ok")
	got3, gerr3 := db.Get(k, nil)
	vpAssert(gerr3 == nil && len(got3) == 2 && vpEqBytes(got3, want), "committed-value-independent-of-caller-buffers")
}

// C03-tr: an iterator taken from a transaction is a frozen view too: later
// writes to the transaction, including the internal flush when its buffer
// fills, change nothing it shows.
func ZZ_C03_tr_iter_frozen() {
	mem := storage.NewMemStorage()
	s := zzSession(mem, 64<<20)
	s.setOptions(&opt.Options{Compression: opt.NoCompression, WriteBuffer: 64, DisableSeeksCompaction: true})
	s.tops = newTableOps(s)
	vpAssert(s.create() == nil, "setup-create")
	db := &DB{
		s:           s,
		seq:         10,
		snapsList:   list.New(),
		memPool:     make(chan *memdb.DB, 1),
		writeLockC:  make(chan struct{}, 1),
		closeC:      make(chan struct{}),
		compPerErrC: make(chan error),
		compErrC:    make(chan error),
	}
	db.mem = &memDB{db: db, DB: memdb.New(s.icmp, 64), ref: 1}
	k1, v1 := []byte{vpNondetU8()}, []byte{vpNondetU8()}
	k2, v2 := []byte{vpNondetU8()}, []byte{vpNondetU8()}
	tr, err := db.OpenTransaction()
	vpAssert(err == nil, "open-ok")
	vpAssert(tr.Put(k1, v1, nil) == nil, "tr-put-ok")
	it := tr.NewIterator(nil, nil)
	// later activity in the same transaction
	if vpChoose(2) == 1 {
		vpAssert(tr.flush() == nil, "tr-flush-ok")
	}
	if vpChoose(2) == 1 {
		vpAssert(tr.Put(k2, v2, nil) == nil, "tr-put2-ok")
	} else {
		vpAssert(tr.Delete(k1, nil) == nil, "tr-delete-ok")
	}
	if vpChoose(2) == 1 {
		vpAssert(tr.flush() == nil, "tr-flush2-ok")
	}
	// the iterator still shows exactly the one pair that existed when it was made
	vpAssert(it.First(), "frozen-view-has-its-pair")
	vpAssert(len(it.Key()) == 1 && it.Key()[0] == k1[0] && len(it.Value()) == 1 && it.Value()[0] == v1[0], "frozen-view-pair-unchanged")
	vpAssert(!it.Next(), "frozen-view-has-nothing-newer")
	vpAssert(it.Error() == nil, "no-error")
	it.Release()
	tr.Discard()
}
