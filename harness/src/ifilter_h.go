package leveldb

// C16-strip: the filter generator and the filter probe see the same user key
// for any (ukey, seq, kind): entries of one user key with different sequence
// numbers hit the same filter.

import "github.com/syndtr/goleveldb/leveldb/filter"

type zzRecFilter struct{ added, probed *[][]byte }

func (zzRecFilter) Name() string { return "zz.rec" }
func (f zzRecFilter) Contains(data, key []byte) bool {
	*f.probed = append(*f.probed, append([]byte(nil), key...))
	return true
}
func (f zzRecFilter) NewGenerator() filter.FilterGenerator { return zzRecGen{f.added} }

type zzRecGen struct{ added *[][]byte }

func (g zzRecGen) Add(key []byte)           { *g.added = append(*g.added, append([]byte(nil), key...)) }
func (g zzRecGen) Generate(b filter.Buffer) {}

func ZZ_C16_strip() {
	var added, probed [][]byte
	f := iFilter{zzRecFilter{&added, &probed}}
	g := f.NewGenerator()
	u := zzBytes(zzKeyLen)
	s1, s2 := zzSeq(), zzSeq()
	g.Add(makeInternalKey(nil, u, s1, zzKT()))
	f.Contains(nil, makeInternalKey(nil, u, s2, keyTypeSeek))
	vpAssert(len(added) == 1 && len(probed) == 1, "one-each")
	vpAssert(vpEqBytes(added[0], u), "generator-sees-user-key")
	vpAssert(vpEqBytes(probed[0], u), "probe-sees-user-key")
}

// C16-partitions: whatever sequence of Add and Generate the table writer
// issues (a filter partition per data block; versions of one user key may
// straddle partitions), every partition's filter is built from every user key
// added while that partition was open.
type zzPartFilter struct {
	cur   *[][]byte
	parts *[][][]byte
}

func (zzPartFilter) Name() string                           { return "zz.part" }
func (zzPartFilter) Contains(data, key []byte) bool         { return true }
func (f zzPartFilter) NewGenerator() filter.FilterGenerator { return zzPartGen{f.cur, f.parts} }

type zzPartGen struct {
	cur   *[][]byte
	parts *[][][]byte
}

func (g zzPartGen) Add(key []byte) { *g.cur = append(*g.cur, append([]byte(nil), key...)) }
func (g zzPartGen) Generate(b filter.Buffer) {
	*g.parts = append(*g.parts, *g.cur)
	*g.cur = nil
}

func ZZ_C16_partitions() {
	var cur [][]byte
	var parts [][][]byte
	f := iFilter{zzPartFilter{&cur, &parts}}
	g := f.NewGenerator()
	var want [][][]byte
	var open [][]byte
	for i := 0; i < zzPartAdds; i++ {
		u := zzBytes(zzKeyLen)
		g.Add(makeInternalKey(nil, u, zzSeq(), zzKT()))
		open = append(open, u)
		if vpChoose(2) == 1 {
			g.Generate(nil)
			want = append(want, open)
			open = nil
		}
	}
	g.Generate(nil)
	want = append(want, open)
	vpAssert(len(parts) == len(want), "one-filter-per-generate")
	for p := range want {
		for _, u := range want[p] {
			found := false
			for _, a := range parts[p] {
				if len(a) == len(u) && vpEqBytes(a, u) {
					found = true
				}
			}
			vpAssert(found, "partition-filter-built-from-every-key-added-to-it")
		}
	}
}
