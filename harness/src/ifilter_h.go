package leveldb

// C16-strip: the filter generator and the filter probe see the same user key
// for any (ukey, seq, kind): entries of one user key with different sequence
// numbers hit the same filter.

import "github.com/syndtr/goleveldb/leveldb/filter"

type zzRecFilter struct{ added, probed *[][]byte }

func (zzRecFilter) Name() string { return "zz.rec" }
func (f zzRecFilter) Contains(data, key []byte) bool {
	*f.probed = append(*f.probed, append([]byte(nil), key...))
	return true
}
func (f zzRecFilter) NewGenerator() filter.FilterGenerator { return zzRecGen{f.added} }

type zzRecGen struct{ added *[][]byte }

func (g zzRecGen) Add(key []byte)           { *g.added = append(*g.added, append([]byte(nil), key...)) }
func (g zzRecGen) Generate(b filter.Buffer) {}

func ZZ_C16_strip() {
	var added, probed [][]byte
	f := iFilter{zzRecFilter{&added, &probed}}
	g := f.NewGenerator()
	u := zzBytes(zzKeyLen)
	s1, s2 := zzSeq(), zzSeq()
	g.Add(makeInternalKey(nil, u, s1, zzKT()))
	f.Contains(nil, makeInternalKey(nil, u, s2, keyTypeSeek))
	vpAssert(len(added) == 1 && len(probed) == 1, "one-each")
	vpAssert(vpEqBytes(added[0], u), "generator-sees-user-key")
	vpAssert(vpEqBytes(probed[0], u), "probe-sees-user-key")
}
