package leveldb

// C05-cut (kernel): a reader's three acquisition steps (sequence number, write
// buffers, version) against the buffer flush of a running DB. The real DB.Get
// runs as one thread, the real DB.memCompaction (table write, manifest commit,
// version installation, frozen-buffer drop, journal removal) as another, under
// every interleaving at synchronisation operations within the switch bound.
// Whatever the interleaving, the reader sees every write acknowledged before
// it started — from the frozen buffer it still holds or from the new table —
// and the newest value of an overwritten key.

import (
	"container/list"

	"github.com/syndtr/goleveldb/leveldb/memdb"
	"github.com/syndtr/goleveldb/leveldb/storage"
)

func ZZ_C05_flush_cut() {
	mem := storage.NewMemStorage()
	s := zzSession(mem, 64<<20)
	s.tops = newTableOps(s)
	vpAssert(s.create() == nil, "setup-create")
	s.markFileNum(5)
	rec := &sessionRecord{}
	rec.setJournalNum(3)
	rec.setSeqNum(0)
	vpAssert(s.commit(rec, false) == nil, "setup-commit")
	zzPutJournal(mem, 3, 1, [][2]string{{"a", "1"}, {"b", "2"}})
	zzPutJournal(mem, 4, 3, [][2]string{{"c", "3"}, {"a", "9"}})
	db := &DB{
		s:               s,
		seq:             4,
		frozenSeq:       2,
		journalFd:       storage.FileDesc{Type: storage.TypeJournal, Num: 4},
		frozenJournalFd: storage.FileDesc{Type: storage.TypeJournal, Num: 3},
		snapsList:       list.New(),
		memPool:         make(chan *memdb.DB, 1),
		tcompPauseC:     make(chan chan<- struct{}),
		compErrC:        make(chan error),
		compPerErrC:     make(chan error),
		compErrSetC:     make(chan error),
		writeLockC:      make(chan struct{}, 1),
		closeC:          make(chan struct{}),
	}
	fm := &memDB{db: db, DB: memdb.New(s.icmp, 256), ref: 1}
	fm.Put(makeInternalKey(nil, []byte("a"), 1, keyTypeVal), []byte("1"))
	fm.Put(makeInternalKey(nil, []byte("b"), 2, keyTypeVal), []byte("2"))
	cm := &memDB{db: db, DB: memdb.New(s.icmp, 256), ref: 1}
	cm.Put(makeInternalKey(nil, []byte("c"), 3, keyTypeVal), []byte("3"))
	cm.Put(makeInternalKey(nil, []byte("a"), 4, keyTypeVal), []byte("9"))
	db.frozenMem, db.mem = fm, cm
	go func() {
		vpEager() // talks to the flush over channels only
		db.compactionError()
	}()
	go func() { // the table-compaction goroutine's side of the pause handshake
		vpEager()
		select {
		case ch := <-db.tcompPauseC:
			select {
			case ch <- struct{}{}:
			case <-db.closeC:
			}
		case <-db.closeC:
		}
	}()
	vpSettle()
	flushed, read := 0, 0
	go func() {
		db.memCompaction()
		flushed++
	}()
	which := vpChoose(3)
	go func() {
		k := []string{"a", "b", "c"}[which]
		want := []string{"9", "2", "3"}[which]
		v, err := db.Get([]byte(k), nil)
		vpAssert(err == nil && string(v) == want, "reader-sees-every-earlier-write-at-its-newest-value")
		read++
	}()
	for flushed == 0 || read == 0 {
		vpSettle()
	}
	vpAssert(db.frozenMem == nil, "flush-completed")
	close(db.closeC)
	vpJoin()
}

func ZZ_C05_witness() {
	ZZ_C05_flush_cut()
	vpAssert(false, "witness")
}
