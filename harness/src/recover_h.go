package leveldb

// C04-recover: a crash (or a storage failure that aborts Open) at ANY storage
// mutation during journal recovery loses nothing: a second, undisturbed
// recovery from the same storage serves every journal record. The real
// session.recover and DB.recoverJournal (journal reader, batch decoding, memdb,
// flush through the real table writer, session.commit, journal removal,
// newMem) run over the real in-memory storage wrapped by a crash switch; the
// final reads go through the real DB.get / table cache / table reader.

import (
	"errors"

	"github.com/syndtr/goleveldb/leveldb/journal"
	"github.com/syndtr/goleveldb/leveldb/memdb"
	"github.com/syndtr/goleveldb/leveldb/opt"
	"github.com/syndtr/goleveldb/leveldb/storage"
)

var errZZDied = errors.New("zz: process died")

type zzCrashStor struct {
	storage.Storage
	ops     int  // storage mutations so far
	crashAt int  // the mutation with this number, and every later one, fails (-1: never)
	dead    bool
	die     bool // the crash is the death of the process: the failing call never returns (panic with errZZDied)
	open    []interface{ Close() error }
	// durability monitor: files with bytes written since their last Sync
	dirty map[storage.FileDesc]bool
}

func (s *zzCrashStor) markDirty(fd storage.FileDesc, d bool) {
	if s.dirty == nil {
		s.dirty = map[storage.FileDesc]bool{}
	}
	s.dirty[fd] = d
}

func (s *zzCrashStor) tick() error {
	if s.dead {
		if s.die {
			panic(errZZDied)
		}
		return errZZFault
	}
	if s.ops == s.crashAt {
		s.dead = true
		if s.die {
			panic(errZZDied)
		}
		return errZZFault
	}
	s.ops++
	return nil
}

type zzCrashWriter struct {
	storage.Writer
	s  *zzCrashStor
	fd storage.FileDesc
}

func (w *zzCrashWriter) Write(p []byte) (int, error) {
	if err := w.s.tick(); err != nil {
		return 0, err
	}
	w.s.markDirty(w.fd, true)
	return w.Writer.Write(p)
}
func (w *zzCrashWriter) Sync() error {
	if err := w.s.tick(); err != nil {
		return err
	}
	if w.fd.Type == storage.TypeManifest {
		// a manifest record becomes durable here: the tables it may name must be durable already
		for f, d := range w.s.dirty {
			if f.Type == storage.TypeTable {
				vpAssert(!d, "tables-synced-before-the-manifest-record")
			}
		}
	}
	w.s.markDirty(w.fd, false)
	return w.Writer.Sync()
}

func (s *zzCrashStor) Create(fd storage.FileDesc) (storage.Writer, error) {
	if err := s.tick(); err != nil {
		return nil, err
	}
	w, err := s.Storage.Create(fd)
	if err != nil {
		return nil, err
	}
	s.open = append(s.open, w)
	return &zzCrashWriter{w, s, fd}, nil
}
func (s *zzCrashStor) Open(fd storage.FileDesc) (storage.Reader, error) {
	r, err := s.Storage.Open(fd)
	if err == nil {
		s.open = append(s.open, r)
	}
	return r, err
}
func (s *zzCrashStor) Remove(fd storage.FileDesc) error {
	if err := s.tick(); err != nil {
		return err
	}
	if fd.Type == storage.TypeManifest {
		// the manifest CURRENT names is never removed
		cur, err := s.Storage.GetMeta()
		vpAssert(err != nil || cur != fd, "current-manifest-never-removed")
	}
	delete(s.dirty, fd)
	return s.Storage.Remove(fd)
}
func (s *zzCrashStor) Rename(a, b storage.FileDesc) error {
	if err := s.tick(); err != nil {
		return err
	}
	return s.Storage.Rename(a, b)
}
func (s *zzCrashStor) SetMeta(fd storage.FileDesc) error {
	if err := s.tick(); err != nil {
		return err
	}
	// the pointer may only name a manifest whose bytes are durable, and every
	// table written so far must be durable before a manifest that may name it is current
	vpAssert(!s.dirty[fd], "current-points-only-to-a-synced-manifest")
	for f, d := range s.dirty {
		if f.Type == storage.TypeTable {
			vpAssert(!d, "tables-synced-before-the-manifest-switch")
		}
	}
	return s.Storage.SetMeta(fd)
}

// the process is gone: its open handles vanish
func (s *zzCrashStor) reap() {
	for _, c := range s.open {
		c.Close()
	}
	s.open = nil
}

func zzPutJournal(stor storage.Storage, num int64, seq uint64, recs [][2]string) {
	w, err := stor.Create(storage.FileDesc{Type: storage.TypeJournal, Num: num})
	vpAssert(err == nil, "setup-journal-create")
	jw := journal.NewWriter(w)
	for _, r := range recs {
		b := new(Batch)
		if r[1] == "" {
			b.Delete([]byte(r[0]))
		} else {
			b.Put([]byte(r[0]), []byte(r[1]))
		}
		wr, _ := jw.Next()
		writeBatchesWithHeader(wr, []*Batch{b}, seq)
		seq++
	}
	jw.Close()
	w.Close()
}

func zzOpenDB(stor storage.Storage) (*DB, error) {
	s := zzSession(stor, 64<<20)
	s.tops = newTableOps(s)
	if err := s.recover(); err != nil {
		return nil, err
	}
	db := &DB{s: s, seq: s.stSeqNum, memPool: make(chan *memdb.DB, 1)}
	if err := db.recoverJournal(); err != nil {
		return nil, err
	}
	return db, nil
}

func ZZ_C04_recover() {
	mem := storage.NewMemStorage()
	// the image a crashed process left: a manifest naming journal 3 as the first
	// live one, and two journals (the buffer had been rotated, its flush was pending)
	s0 := zzSession(mem, 64<<20)
	vpAssert(s0.create() == nil, "setup-create")
	s0.markFileNum(4)
	rec := &sessionRecord{}
	rec.setJournalNum(3)
	rec.setSeqNum(0)
	vpAssert(s0.commit(rec, false) == nil, "setup-commit")
	s0.manifest.Close()
	s0.manifestWriter.Close()
	zzPutJournal(mem, 3, 1, [][2]string{{"a", "1"}, {"b", "2"}, {"d", "4"}})
	zzPutJournal(mem, 4, 4, [][2]string{{"c", "3"}, {"a", "9"}, {"b", ""}})

	// recovery #1 dies at a nondeterministic storage mutation (or not at all)
	cs := &zzCrashStor{Storage: mem, crashAt: vpChoose(zzCrashPoints+1) - 1}
	db1, err1 := zzOpenDB(cs)
	died := cs.dead
	cs.reap()
	if !died {
		vpAssert(err1 == nil, "undisturbed-recovery-succeeds")
		vpAssert(cs.ops <= zzCrashPoints, "crash-point-bound-covers-the-whole-recovery")
	}
	_ = db1
	// recovery #2: no faults
	cs2 := &zzCrashStor{Storage: mem, crashAt: -1}
	db2, err2 := zzOpenDB(cs2)
	vpAssert(err2 == nil, "reopen-after-crash-succeeds")
	if err2 != nil {
		return
	}
	want := map[string]string{"a": "9", "b": "", "c": "3", "d": "4"}
	for _, k := range []string{"a", "b", "c", "d"} {
		v, err := db2.get(nil, nil, []byte(k), db2.seq, nil)
		if want[k] == "" {
			vpAssert(err == ErrNotFound, "deleted-key-stays-deleted")
		} else {
			vpAssert(err == nil && string(v) == want[k], "journal-record-survives-crashed-recovery")
		}
	}
	vpAssert(db2.seq >= 6, "sequence-not-behind-the-recovered-records")
}

func ZZ_C04_recover_witness() {
	ZZ_C04_recover()
	vpAssert(false, "witness")
}

var _ = opt.DefaultBlockSize

// C18-ro: opening read-only replays the journals into memory without a single
// storage mutation, and serves the journal-only data.
func ZZ_C18_readonly() {
	mem := storage.NewMemStorage()
	s0 := zzSession(mem, 64<<20)
	vpAssert(s0.create() == nil, "setup-create")
	s0.markFileNum(4)
	rec := &sessionRecord{}
	rec.setJournalNum(3)
	rec.setSeqNum(0)
	vpAssert(s0.commit(rec, false) == nil, "setup-commit")
	s0.manifest.Close()
	s0.manifestWriter.Close()
	k1, k2 := []byte{vpNondetU8()}, []byte{vpNondetU8()}
	v1, v2 := []byte{vpNondetU8()}, []byte{vpNondetU8()}
	w, _ := mem.Create(storage.FileDesc{Type: storage.TypeJournal, Num: 3})
	jw := journal.NewWriter(w)
	b := new(Batch)
	b.Put(k1, v1)
	wr, _ := jw.Next()
	writeBatchesWithHeader(wr, []*Batch{b}, 1)
	b2 := new(Batch)
	if vpChoose(2) == 0 {
		b2.Put(k2, v2)
	} else {
		b2.Delete(k2)
	}
	del2 := b2.index[0].keyType == keyTypeDel
	if vpChoose(2) == 1 {
		// the second batch is in a newer journal (the state after a close
		// with a memdb flush still pending: two live journals)
		jw.Close()
		w.Close()
		w, _ = mem.Create(storage.FileDesc{Type: storage.TypeJournal, Num: 4})
		jw = journal.NewWriter(w)
	}
	wr, _ = jw.Next()
	writeBatchesWithHeader(wr, []*Batch{b2}, 2)
	jw.Close()
	w.Close()

	cs := &zzCrashStor{Storage: mem, crashAt: -1}
	s := zzSession(cs, 64<<20)
	s.tops = newTableOps(s)
	vpAssert(s.recover() == nil, "recover-ok")
	db := &DB{s: s, seq: s.stSeqNum, memPool: make(chan *memdb.DB, 1)}
	vpAssert(db.recoverJournalRO() == nil, "readonly-replay-ok")
	vpAssert(cs.ops == 0, "readonly-open-mutates-nothing")
	// the journal-only data is served
	got2, err2 := db.get(nil, nil, k2, db.seq, nil)
	if del2 {
		vpAssert(err2 == ErrNotFound, "readonly-serves-journal-delete")
	} else {
		vpAssert(err2 == nil && len(got2) == 1 && got2[0] == v2[0], "readonly-serves-journal-put")
	}
	got1, err1 := db.get(nil, nil, k1, db.seq, nil)
	if k1[0] != k2[0] {
		vpAssert(err1 == nil && len(got1) == 1 && got1[0] == v1[0], "readonly-serves-older-journal-put")
	}
	vpAssert(cs.ops == 0, "reads-mutate-nothing")
}

// C04-memflush: a crash at ANY storage mutation while a running DB flushes its
// frozen write buffer (the real DB.memCompaction: table write, manifest commit,
// frozen-journal removal) loses nothing: recovery from the same storage serves
// every acknowledged record of both journals. The crash is the death of the
// process (the failing storage call never returns).
func ZZ_C04_memflush() {
	mem := storage.NewMemStorage()
	cs := &zzCrashStor{Storage: mem, crashAt: -1, die: true}
	s := zzSession(cs, 64<<20)
	s.tops = newTableOps(s)
	vpAssert(s.create() == nil, "setup-create")
	s.markFileNum(5)
	rec := &sessionRecord{}
	rec.setJournalNum(3)
	rec.setSeqNum(0)
	vpAssert(s.commit(rec, false) == nil, "setup-commit")
	// acknowledged writes: journal 3 (frozen with its buffer) and journal 4 (current)
	zzPutJournal(mem, 3, 1, [][2]string{{"a", "1"}, {"b", "2"}, {"d", "4"}})
	zzPutJournal(mem, 4, 4, [][2]string{{"c", "3"}, {"a", "9"}, {"b", ""}})
	db := &DB{
		s:               s,
		seq:             6,
		frozenSeq:       3,
		journalFd:       storage.FileDesc{Type: storage.TypeJournal, Num: 4},
		frozenJournalFd: storage.FileDesc{Type: storage.TypeJournal, Num: 3},
		memPool:         make(chan *memdb.DB, 1),
		tcompPauseC:     make(chan chan<- struct{}),
		compErrC:        make(chan error),
		compPerErrC:     make(chan error),
		compErrSetC:     make(chan error),
		writeLockC:      make(chan struct{}, 1),
		closeC:          make(chan struct{}),
	}
	go db.compactionError()
	fm := &memDB{db: db, DB: memdb.New(s.icmp, 256), ref: 1}
	fm.Put(makeInternalKey(nil, []byte("a"), 1, keyTypeVal), []byte("1"))
	fm.Put(makeInternalKey(nil, []byte("b"), 2, keyTypeVal), []byte("2"))
	fm.Put(makeInternalKey(nil, []byte("d"), 3, keyTypeVal), []byte("4"))
	cm := &memDB{db: db, DB: memdb.New(s.icmp, 256), ref: 1}
	cm.Put(makeInternalKey(nil, []byte("c"), 4, keyTypeVal), []byte("3"))
	cm.Put(makeInternalKey(nil, []byte("a"), 5, keyTypeVal), []byte("9"))
	cm.Put(makeInternalKey(nil, []byte("b"), 6, keyTypeDel), nil)
	db.frozenMem, db.mem = fm, cm
	// the table-compaction goroutine's side of the pause handshake
	go func() {
		select {
		case ch := <-db.tcompPauseC:
			select {
			case ch <- struct{}{}:
			case <-db.closeC:
			}
		case <-db.closeC:
		}
	}()
	cs.ops = 0
	cs.crashAt = vpChoose(zzCrashPoints+1) - 1
	func() {
		defer func() {
			if x := recover(); x != nil {
				vpAssert(x == errZZDied, "only-the-crash-unwinds")
			}
		}()
		db.memCompaction()
	}()
	if !cs.dead {
		vpAssert(cs.ops <= zzCrashPoints, "crash-point-bound-covers-the-whole-flush")
		vpAssert(db.frozenMem == nil, "flush-drops-the-frozen-buffer")
		fds, _ := mem.List(storage.TypeJournal)
		vpAssert(len(fds) == 1 && fds[0].Num == 4, "flush-removes-exactly-the-frozen-journal")
	}
	close(db.closeC)
	vpJoin()
	cs.reap()
	db2, err2 := zzOpenDB(&zzCrashStor{Storage: mem, crashAt: -1})
	vpAssert(err2 == nil, "reopen-after-crash-succeeds")
	if err2 != nil {
		return
	}
	want := map[string]string{"a": "9", "b": "", "c": "3", "d": "4"}
	for _, k := range []string{"a", "b", "c", "d"} {
		v, err := db2.get(nil, nil, []byte(k), db2.seq, nil)
		if want[k] == "" {
			vpAssert(err == ErrNotFound, "deleted-key-stays-deleted")
		} else {
			vpAssert(err == nil && string(v) == want[k], "acknowledged-write-survives-crashed-flush")
		}
	}
	vpAssert(db2.seq >= 6, "sequence-not-behind-the-recovered-records")
}
