package leveldb

// C04-recover: a crash (or a storage failure that aborts Open) at ANY storage
// mutation during journal recovery loses nothing: a second, undisturbed
// recovery from the same storage serves every journal record. The real
// session.recover and DB.recoverJournal (journal reader, batch decoding, memdb,
// flush through the real table writer, session.commit, journal removal,
// newMem) run over the real in-memory storage wrapped by a crash switch; the
// final reads go through the real DB.get / table cache / table reader.

import (
	"github.com/syndtr/goleveldb/leveldb/journal"
	"github.com/syndtr/goleveldb/leveldb/memdb"
	"github.com/syndtr/goleveldb/leveldb/opt"
	"github.com/syndtr/goleveldb/leveldb/storage"
)

type zzCrashStor struct {
	storage.Storage
	ops     int  // storage mutations so far
	crashAt int  // the mutation with this number, and every later one, fails (-1: never)
	dead    bool
	open    []interface{ Close() error }
}

func (s *zzCrashStor) tick() error {
	if s.dead {
		return errZZFault
	}
	if s.ops == s.crashAt {
		s.dead = true
		return errZZFault
	}
	s.ops++
	return nil
}

type zzCrashWriter struct {
	storage.Writer
	s *zzCrashStor
}

func (w *zzCrashWriter) Write(p []byte) (int, error) {
	if err := w.s.tick(); err != nil {
		return 0, err
	}
	return w.Writer.Write(p)
}
func (w *zzCrashWriter) Sync() error {
	if err := w.s.tick(); err != nil {
		return err
	}
	return w.Writer.Sync()
}

func (s *zzCrashStor) Create(fd storage.FileDesc) (storage.Writer, error) {
	if err := s.tick(); err != nil {
		return nil, err
	}
	w, err := s.Storage.Create(fd)
	if err != nil {
		return nil, err
	}
	s.open = append(s.open, w)
	return &zzCrashWriter{w, s}, nil
}
func (s *zzCrashStor) Open(fd storage.FileDesc) (storage.Reader, error) {
	r, err := s.Storage.Open(fd)
	if err == nil {
		s.open = append(s.open, r)
	}
	return r, err
}
func (s *zzCrashStor) Remove(fd storage.FileDesc) error {
	if err := s.tick(); err != nil {
		return err
	}
	return s.Storage.Remove(fd)
}
func (s *zzCrashStor) Rename(a, b storage.FileDesc) error {
	if err := s.tick(); err != nil {
		return err
	}
	return s.Storage.Rename(a, b)
}
func (s *zzCrashStor) SetMeta(fd storage.FileDesc) error {
	if err := s.tick(); err != nil {
		return err
	}
	return s.Storage.SetMeta(fd)
}

// the process is gone: its open handles vanish
func (s *zzCrashStor) reap() {
	for _, c := range s.open {
		c.Close()
	}
	s.open = nil
}

func zzPutJournal(stor storage.Storage, num int64, seq uint64, recs [][2]string) {
	w, err := stor.Create(storage.FileDesc{Type: storage.TypeJournal, Num: num})
	vpAssert(err == nil, "setup-journal-create")
	jw := journal.NewWriter(w)
	for _, r := range recs {
		b := new(Batch)
		if r[1] == "" {
			b.Delete([]byte(r[0]))
		} else {
			b.Put([]byte(r[0]), []byte(r[1]))
		}
		wr, _ := jw.Next()
		writeBatchesWithHeader(wr, []*Batch{b}, seq)
		seq++
	}
	jw.Close()
	w.Close()
}

func zzOpenDB(stor storage.Storage) (*DB, error) {
	s := zzSession(stor, 64<<20)
	s.tops = newTableOps(s)
	if err := s.recover(); err != nil {
		return nil, err
	}
	db := &DB{s: s, seq: s.stSeqNum, memPool: make(chan *memdb.DB, 1)}
	if err := db.recoverJournal(); err != nil {
		return nil, err
	}
	return db, nil
}

func ZZ_C04_recover() {
	mem := storage.NewMemStorage()
	// the image a crashed process left: a manifest naming journal 3 as the first
	// live one, and two journals (the buffer had been rotated, its flush was pending)
	s0 := zzSession(mem, 64<<20)
	vpAssert(s0.create() == nil, "setup-create")
	s0.markFileNum(4)
	rec := &sessionRecord{}
	rec.setJournalNum(3)
	rec.setSeqNum(0)
	vpAssert(s0.commit(rec, false) == nil, "setup-commit")
	s0.manifest.Close()
	s0.manifestWriter.Close()
	zzPutJournal(mem, 3, 1, [][2]string{{"a", "1"}, {"b", "2"}, {"d", "4"}})
	zzPutJournal(mem, 4, 4, [][2]string{{"c", "3"}, {"a", "9"}, {"b", ""}})

	// recovery #1 dies at a nondeterministic storage mutation (or not at all)
	cs := &zzCrashStor{Storage: mem, crashAt: vpChoose(zzCrashPoints+1) - 1}
	db1, err1 := zzOpenDB(cs)
	died := cs.dead
	cs.reap()
	if !died {
		vpAssert(err1 == nil, "undisturbed-recovery-succeeds")
		vpAssert(cs.ops <= zzCrashPoints, "crash-point-bound-covers-the-whole-recovery")
	}
	_ = db1
	// recovery #2: no faults
	cs2 := &zzCrashStor{Storage: mem, crashAt: -1}
	db2, err2 := zzOpenDB(cs2)
	vpAssert(err2 == nil, "reopen-after-crash-succeeds")
	if err2 != nil {
		return
	}
	want := map[string]string{"a": "9", "b": "", "c": "3", "d": "4"}
	for _, k := range []string{"a", "b", "c", "d"} {
		v, err := db2.get(nil, nil, []byte(k), db2.seq, nil)
		if want[k] == "" {
			vpAssert(err == ErrNotFound, "deleted-key-stays-deleted")
		} else {
			vpAssert(err == nil && string(v) == want[k], "journal-record-survives-crashed-recovery")
		}
	}
	vpAssert(db2.seq >= 6, "sequence-not-behind-the-recovered-records")
}

func ZZ_C04_recover_witness() {
	ZZ_C04_recover()
	vpAssert(false, "witness")
}

var _ = opt.DefaultBlockSize
