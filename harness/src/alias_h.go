package leveldb

// C20: the DB neither keeps nor exposes shared buffers across the API
// boundary. After a call returns, the caller's buffers are overwritten with
// arbitrary bytes (vpHavoc: every cell becomes a fresh symbol); what the DB
// stored must be independent of those symbols, and the callee must not have
// modified the arguments.

import (
	"github.com/syndtr/goleveldb/leveldb/comparer"
	"github.com/syndtr/goleveldb/leveldb/iterator"
	"github.com/syndtr/goleveldb/leveldb/journal"
	"github.com/syndtr/goleveldb/leveldb/memdb"
	"github.com/syndtr/goleveldb/leveldb/opt"
	"github.com/syndtr/goleveldb/leveldb/storage"
)

func zzSame(a, b []byte) bool { return len(a) == len(b) && vpEqBytes(a, b) }

func ZZ_C20_batch() {
	b := new(Batch)
	k1, v1, k2 := zzBytes(zzKeyLen), zzBytes(zzKeyLen), zzBytes(zzKeyLen)
	k1c, v1c, k2c := zzCopy(k1), zzCopy(v1), zzCopy(k2)
	b.Put(k1, v1)
	b.Delete(k2)
	vpAssert(zzSame(k1, k1c) && zzSame(v1, v1c) && zzSame(k2, k2c), "batch-args-unmodified")
	vpHavoc(k1)
	vpHavoc(v1)
	vpHavoc(k2)
	i := 0
	b.replayInternal(func(_ int, kt keyType, k, v []byte) error {
		if i == 0 {
			vpAssert(kt == keyTypeVal && zzSame(k, k1c) && zzSame(v, v1c), "batch-keeps-private-copy-put")
		} else {
			vpAssert(kt == keyTypeDel && zzSame(k, k2c), "batch-keeps-private-copy-delete")
		}
		i++
		return nil
	})
	vpAssert(i == 2, "batch-two-records")
	// the batch applied to a memdb, then the batch buffer itself scribbled over
	mdb := memdb.New(&iComparer{comparer.DefaultComparer}, 0)
	vpAssert(b.putMem(7, mdb) == nil, "putmem-ok")
	vpHavoc(b.data)
	val, err := mdb.Get(makeInternalKey(nil, k1c, 7, keyTypeVal))
	vpAssert(err == nil && zzSame(val, v1c), "memdb-keeps-private-copy")
}

type zzJSink struct{ data []byte }

func (s *zzJSink) Write(p []byte) (int, error) { s.data = append(s.data, p...); return len(p), nil }
func (s *zzJSink) Close() error                { return nil }
func (s *zzJSink) Sync() error                 { return nil }

func zzWriteDB() (*DB, *zzJSink) {
	s := &session{stor: newIStorage(storage.NewMemStorage())}
	s.setOptions(&opt.Options{WriteBuffer: 1 << 16})
	s.tops = &tOps{s: s}
	s.stVersion = &version{s: s, ref: 1}
	db := &DB{
		s:           s,
		seq:         10,
		writeLockC:  make(chan struct{}, 1),
		closeC:      make(chan struct{}),
		compPerErrC: make(chan error),
		compErrC:    make(chan error),
	}
	db.batchPool.New = newBatch
	db.mem = &memDB{db: db, DB: memdb.New(s.icmp, 1<<16), ref: 1}
	sink := &zzJSink{}
	db.journal = journal.NewWriter(sink)
	db.journalWriter = sink
	return db, sink
}

func ZZ_C20_dbput() {
	db, sink := zzWriteDB()
	k, v := zzBytes(zzKeyLen), zzBytes(zzKeyLen)
	kc, vc := zzCopy(k), zzCopy(v)
	if vpChoose(2) == 0 {
		vpAssert(db.Put(k, v, nil) == nil, "put-ok")
	} else {
		b := new(Batch)
		b.Put(k, v)
		vpAssert(db.Write(b, &opt.WriteOptions{NoWriteMerge: true}) == nil, "write-ok")
		vpHavoc(b.data)
	}
	vpAssert(zzSame(k, kc) && zzSame(v, vc), "put-args-unmodified")
	journalBefore := zzCopy(sink.data)
	vpHavoc(k)
	vpHavoc(v)
	got, err := db.get(nil, nil, kc, db.seq, nil)
	vpAssert(err == nil && zzSame(got, vc), "stored-value-independent-of-caller-buffers")
	vpAssert(zzSame(sink.data, journalBefore), "journal-bytes-independent-of-caller-buffers")
	vpAssert(len(db.writeLockC) == 0, "write-lock-released")
	// the value handed out is private: scribbling over it changes nothing
	vpHavoc(got)
	got2, err2 := db.get(nil, nil, kc, db.seq, nil)
	vpAssert(err2 == nil && zzSame(got2, vc), "returned-value-is-a-private-copy")
}

// iterator: key/value stay intact until the iterator is moved, even if the
// buffers of the layer below are overwritten
func ZZ_C20_iter() {
	icmp := &iComparer{comparer.DefaultComparer}
	ents, arr := zzStream(icmp, 2)
	_ = ents
	it := &dbIter{icmp: icmp, iter: iterator.NewArrayIterator(arr), seq: keyMaxSeq, disableSampling: true, key: make([]byte, 0), value: make([]byte, 0)}
	sk := zzBytes(1)
	skc := zzCopy(sk)
	ok := it.Seek(sk)
	vpAssert(zzSame(sk, skc), "seek-arg-unmodified")
	vpHavoc(sk)
	if !ok {
		return
	}
	kc, vc := zzCopy(it.Key()), zzCopy(it.Value())
	for i := range arr.keys {
		vpHavoc(arr.keys[i])
		vpHavoc(arr.vals[i])
	}
	vpAssert(zzSame(it.Key(), kc) && zzSame(it.Value(), vc), "iterator-pair-stable-until-moved")
}

func ZZ_C20_witness() {
	ZZ_C20_batch()
	vpAssert(false, "witness")
}
