package leveldb

import "errors"

var errZZFault = errors.New("zz: injected fault")
