package leveldb

// C18-setreadonly (also C09): SetReadOnly from any state of the compaction
// error machine (the real DB.compactionError goroutine, run as a thread): no
// error, a transient compaction error pending, or a transient error that was
// cleared again. Afterwards every write-type call fails promptly with
// ErrReadOnly instead of blocking, reads are served, and the real DB.Close
// returns.

import (
	"container/list"

	"github.com/syndtr/goleveldb/leveldb/memdb"
	"github.com/syndtr/goleveldb/leveldb/opt"
	"github.com/syndtr/goleveldb/leveldb/storage"
	"github.com/syndtr/goleveldb/leveldb/util"
)

func zzLiveDB() *DB {
	stor := storage.NewMemStorage()
	lock, _ := stor.Lock()
	s := &session{
		stor:      newIStorage(stor),
		storLock:  lock,
		refCh:     make(chan *vTask),
		relCh:     make(chan *vTask),
		deltaCh:   make(chan *vDelta),
		abandon:   make(chan int64),
		fileRefCh: make(chan chan map[int64]int),
		closeC:    make(chan struct{}),
	}
	s.setOptions(&opt.Options{})
	s.tops = newTableOps(s)
	s.closeW.Add(1)
	go s.refLoop()
	s.setVersion(nil, newVersion(s))
	db := &DB{
		s:            s,
		seq:          10,
		snapsList:    list.New(),
		memPool:      make(chan *memdb.DB, 1),
		writeMergeC:  make(chan writeMerge),
		writeMergedC: make(chan bool),
		writeLockC:   make(chan struct{}, 1),
		writeAckC:    make(chan error),
		tcompCmdC:    make(chan cCmd),
		tcompPauseC:  make(chan chan<- struct{}),
		mcompCmdC:    make(chan cCmd),
		compErrC:     make(chan error),
		compPerErrC:  make(chan error),
		compErrSetC:  make(chan error),
		closeC:       make(chan struct{}),
	}
	db.mem = &memDB{db: db, DB: memdb.New(s.icmp, 64), ref: 1}
	go db.compactionError()
	return db
}

func ZZ_C18_setreadonly() {
	db := zzLiveDB()
	// what a failing / recovering compaction transaction reports
	switch vpChoose(3) {
	case 1:
		db.compErrSetC <- errZZFault
	case 2:
		db.compErrSetC <- errZZFault
		db.compErrSetC <- nil
	}
	vpAssert(db.SetReadOnly() == nil, "setreadonly-ok")
	k, v := []byte{vpNondetU8()}, []byte{vpNondetU8()}
	switch vpChoose(6) {
	case 0:
		vpAssert(db.Put(k, v, nil) == ErrReadOnly, "readonly-put-rejected")
	case 1:
		vpAssert(db.Delete(k, nil) == ErrReadOnly, "readonly-delete-rejected")
	case 2:
		b := new(Batch)
		b.Put(k, v)
		vpAssert(db.Write(b, &opt.WriteOptions{NoWriteMerge: vpChoose(2) == 1}) == ErrReadOnly, "readonly-write-rejected")
	case 3:
		tr, err := db.OpenTransaction()
		vpAssert(tr == nil && err == ErrReadOnly, "readonly-opentransaction-rejected")
	case 4:
		vpAssert(db.CompactRange(util.Range{}) == ErrReadOnly, "readonly-compactrange-rejected")
	default:
		vpAssert(db.SetReadOnly() == ErrReadOnly, "second-setreadonly-reports-readonly")
	}
	_, gerr := db.Get(k, nil)
	vpAssert(gerr == ErrNotFound, "readonly-serves-reads")
	vpAssert(db.Close() == nil, "close-returns-nil-after-setreadonly")
	_, gerr = db.Get(k, nil)
	vpAssert(gerr == ErrClosed, "closed-after-close")
	vpJoin()
}

func ZZ_C18_setreadonly_witness() {
	ZZ_C18_setreadonly()
	vpAssert(false, "witness")
}
