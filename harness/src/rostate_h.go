package leveldb

// C18-setreadonly (also C09): SetReadOnly from any state of the compaction
// error machine (the real DB.compactionError goroutine, run as a thread): no
// error, a transient compaction error pending, or a transient error that was
// cleared again. Afterwards every write-type call fails promptly with
// ErrReadOnly instead of blocking, reads are served, and the real DB.Close
// returns.

import (
	"github.com/syndtr/goleveldb/leveldb/opt"
	"github.com/syndtr/goleveldb/leveldb/util"
)

func ZZ_C18_setreadonly() {
	db := zzLiveDB()
	// what a failing / recovering compaction transaction reports
	switch vpChoose(3) {
	case 1:
		db.compErrSetC <- errZZFault
	case 2:
		db.compErrSetC <- errZZFault
		db.compErrSetC <- nil
	}
	vpAssert(db.SetReadOnly() == nil, "setreadonly-ok")
	k, v := []byte{vpNondetU8()}, []byte{vpNondetU8()}
	switch vpChoose(6) {
	case 0:
		vpAssert(db.Put(k, v, nil) == ErrReadOnly, "readonly-put-rejected")
	case 1:
		vpAssert(db.Delete(k, nil) == ErrReadOnly, "readonly-delete-rejected")
	case 2:
		b := new(Batch)
		b.Put(k, v)
		vpAssert(db.Write(b, &opt.WriteOptions{NoWriteMerge: vpChoose(2) == 1}) == ErrReadOnly, "readonly-write-rejected")
	case 3:
		tr, err := db.OpenTransaction()
		vpAssert(tr == nil && err == ErrReadOnly, "readonly-opentransaction-rejected")
	case 4:
		vpAssert(db.CompactRange(util.Range{}) == ErrReadOnly, "readonly-compactrange-rejected")
	default:
		vpAssert(db.SetReadOnly() == ErrReadOnly, "second-setreadonly-reports-readonly")
	}
	_, gerr := db.Get(k, nil)
	vpAssert(gerr == ErrNotFound, "readonly-serves-reads")
	vpAssert(db.Close() == nil, "close-returns-nil-after-setreadonly")
	_, gerr = db.Get(k, nil)
	vpAssert(gerr == ErrClosed, "closed-after-close")
	vpJoin()
}

func ZZ_C18_setreadonly_witness() {
	ZZ_C18_setreadonly()
	vpAssert(false, "witness")
}
