package leveldb

// C18-setreadonly (also C09): SetReadOnly from any state of the compaction
// error machine (the real DB.compactionError goroutine, run as a thread): no
// error, a transient compaction error pending, or a transient error that was
// cleared again. Afterwards every write-type call fails promptly with
// ErrReadOnly instead of blocking, reads are served, and the real DB.Close
// returns.

import (
	"github.com/syndtr/goleveldb/leveldb/opt"
	"github.com/syndtr/goleveldb/leveldb/util"
)

func ZZ_C18_setreadonly() {
	db := zzLiveDB()
	// what a failing / recovering compaction transaction reports
	switch vpChoose(3) {
	case 1:
		db.compErrSetC <- errZZFault
	case 2:
		db.compErrSetC <- errZZFault
		db.compErrSetC <- nil
	}
	vpAssert(db.SetReadOnly() == nil, "setreadonly-ok")
	k, v := []byte{vpNondetU8()}, []byte{vpNondetU8()}
	switch vpChoose(6) {
	case 0:
		vpAssert(db.Put(k, v, nil) == ErrReadOnly, "readonly-put-rejected")
	case 1:
		vpAssert(db.Delete(k, nil) == ErrReadOnly, "readonly-delete-rejected")
	case 2:
		b := new(Batch)
		b.Put(k, v)
		vpAssert(db.Write(b, &opt.WriteOptions{NoWriteMerge: vpChoose(2) == 1}) == ErrReadOnly, "readonly-write-rejected")
	case 3:
		tr, err := db.OpenTransaction()
		vpAssert(tr == nil && err == ErrReadOnly, "readonly-opentransaction-rejected")
	case 4:
		vpAssert(db.CompactRange(util.Range{}) == ErrReadOnly, "readonly-compactrange-rejected")
	default:
		vpAssert(db.SetReadOnly() == ErrReadOnly, "second-setreadonly-reports-readonly")
	}
	_, gerr := db.Get(k, nil)
	vpAssert(gerr == ErrNotFound, "readonly-serves-reads")
	vpAssert(db.Close() == nil, "close-returns-nil-after-setreadonly")
	_, gerr = db.Get(k, nil)
	vpAssert(gerr == ErrClosed, "closed-after-close")
	vpJoin()
}

func ZZ_C18_setreadonly_witness() {
	ZZ_C18_setreadonly()
	vpAssert(false, "witness")
}

// C18-ro-quiet: once SetReadOnly has returned, no further compaction step
// starts: a compaction transaction (what seek-, size- and range-triggered table
// compactions and buffer flushes run their file-writing steps in) gives up
// before executing its step.
func ZZ_C18_setreadonly_quiet() {
	db := zzLiveDB()
	switch vpChoose(3) {
	case 1:
		db.compErrSetC <- errZZFault
	case 2:
		db.compErrSetC <- errZZFault
		db.compErrSetC <- nil
	}
	vpAssert(db.SetReadOnly() == nil, "setreadonly-ok")
	vpSettle() // "once in-flight background work has drained"
	ran := 0
	func() {
		defer func() {
			if x := recover(); x != nil {
				vpAssert(x == errCompactionTransactExiting, "only-the-transaction-exit-unwinds")
			}
		}()
		db.compactionTransactFunc("zz@compaction", func(cnt *compactionTransactCounter) error {
			ran++ // stands for the step's file creation / manifest commit
			return nil
		}, nil)
	}()
	vpAssert(ran == 0, "no-compaction-step-starts-after-setreadonly")
	vpAssert(db.Close() == nil, "close-returns-nil-after-setreadonly")
	vpJoin()
}

// C18/C09: SetReadOnly racing with Close: both return, whatever the order.
func ZZ_C18_setreadonly_close() {
	db := zzLiveDB()
	pre := vpChoose(3)
	switch pre {
	case 1:
		db.compErrSetC <- errZZFault
	case 2:
		db.compErrSetC <- errZZFault
		db.compErrSetC <- nil
	}
	var rerr, cerr error
	nret := 0
	go func() {
		rerr = db.SetReadOnly()
		nret++
	}()
	go func() {
		cerr = db.Close()
		nret++
	}()
	vpJoin()
	vpAssert(nret == 2, "setreadonly-and-close-both-return")
	vpAssert(rerr == nil || rerr == ErrClosed, "setreadonly-nil-or-closed")
	// Close reports a compaction error that was pending when it was called
	vpAssert(cerr == nil || (pre == 1 && cerr == errZZFault), "close-returns-nil-or-the-pending-error")
}

// C18/C09: Close with a transaction still open discards it and returns; the
// storage becomes available again.
func ZZ_C18_close_with_transaction() {
	db := zzLiveDB()
	stor := db.s.stor.Storage
	tr, err := db.OpenTransaction()
	vpAssert(err == nil && tr != nil, "open-ok")
	if vpChoose(2) == 1 {
		vpAssert(tr.Put([]byte{vpNondetU8()}, []byte{vpNondetU8()}, nil) == nil, "tr-put-ok")
	}
	_, lerr := stor.Lock()
	vpAssert(lerr != nil, "storage-has-one-owner-while-open")
	vpAssert(db.Close() == nil, "close-with-open-transaction-returns-nil")
	vpAssert(tr.Put([]byte("k"), []byte("v"), nil) != nil, "transaction-is-finished-by-close")
	vpAssert(tr.Commit() != nil, "commit-after-close-fails")
	tr.Discard() // harmless
	_, gerr := db.Get([]byte("k"), nil)
	vpAssert(gerr == ErrClosed, "closed-after-close")
	l2, lerr2 := stor.Lock()
	vpAssert(lerr2 == nil && l2 != nil, "storage-available-again-after-close")
	vpJoin()
}
