package cache

// C17-conc: two clients on one key under every interleaving at
// synchronisation operations (mutexes, atomics) within the switch bound: each
// handle yields a live value, a key has one live value at a time (the
// constructor is not run twice for one residency), every value is finalised
// exactly once and never while a handle to it is outstanding, and deletion
// callbacks run exactly once, after the last handle is gone.

var zzConcOut map[*zzVal]int // outstanding handles per value

func zzConcGet(c *Cache, who int) *Handle {
	h := c.Get(0, 0, func() (int, Value) {
		vpYield() // a real constructor opens a file / reads a block: other threads run meanwhile
		v := &zzVal{id: len(zzVals)}
		zzVals = append(zzVals, v)
		return 1, v
	})
	return h
}

type zzCVal = zzVal

func zzConc(second int) {
	zzVals, zzHandles, zzForce = nil, nil, true // zzVal.Release's handle scan is replaced by the counter below
	zzConcOut = map[*zzVal]int{}
	capv := vpChoose(2) // 0: nothing retained, 1: the node is retained after release
	lr := NewLRU(capv).(*lru)
	c := NewCache(lr)
	delCalls := 0
	client := func(op int) {
		switch op {
		case 0: // Get, use, Release
			h := zzConcGet(c, 0)
			vpAssert(h != nil, "get-returns-handle")
			v := h.Value().(*zzVal)
			for o, n := range zzConcOut {
				vpAssert(n == 0 || o == v, "one-live-value-per-key")
			}
			zzConcOut[v]++
			vpAssert(v.released == 0, "handle-yields-a-live-value")
			vpYield()
			vpAssert(h.Value() == Value(v) && v.released == 0, "value-stays-live-while-held")
			zzConcOut[v]--
			h.Release()
		case 1: // Delete with callback
			c.Delete(0, 0, func() {
				delCalls++
				for v, n := range zzConcOut {
					vpAssert(n == 0 || v.released == 0, "delete-callback-not-before-handles-are-gone")
				}
			})
		case 2:
			c.Evict(0, 0)
		default:
			c.EvictAll()
		}
	}
	go client(0)
	go client(second)
	vpJoin()
	for _, v := range zzVals {
		vpAssert(v.released <= 1, "value-finalised-at-most-once")
	}
	c.EvictAll()
	for _, v := range zzVals {
		vpAssert(v.released == 1, "every-value-finalised-exactly-once-when-unreferenced")
	}
	if second == 1 {
		vpAssert(delCalls <= 1, "delete-callback-at-most-once")
	}
	vpAssert(c.Nodes() == 0, "no-node-left")
	vpAssert(lr.used == 0, "nothing-retained")
}

func ZZ_C17_conc_getget()   { zzConc(0) }
func ZZ_C17_conc_getdel()   { zzConc(1) }
func ZZ_C17_conc_getevict() { zzConc(2 + vpChoose(2)) }

// Close racing with a client whose second Get evicts the first node from the
// LRU (the eviction releases a handle inside Get).
func ZZ_C17_conc_close() {
	zzVals, zzHandles, zzForce = nil, nil, true
	zzConcOut = map[*zzVal]int{}
	lr := NewLRU(1).(*lru)
	c := NewCache(lr)
	force := vpChoose(2) == 1
	get := func(key uint64) {
		h := c.Get(0, key, func() (int, Value) {
			v := &zzVal{id: len(zzVals)}
			zzVals = append(zzVals, v)
			return 1, v
		})
		if h == nil {
			return // closed
		}
		v := h.Value()
		if !force {
			vpAssert(v != nil && v.(*zzVal).released == 0, "handle-yields-a-live-value")
		}
		h.Release()
	}
	go func() {
		get(0)
		get(1)
	}()
	go func() {
		c.Close(force)
	}()
	vpJoin()
	for _, v := range zzVals {
		vpAssert(v.released == 1, "every-value-finalised-exactly-once-after-close")
	}
}

// A forced Close racing with the release of the last handle: the value is
// still finalised exactly once (no replacement policy, so the only shared
// state is the node itself).
func ZZ_C17_conc_forceclose() {
	zzVals, zzHandles, zzForce = nil, nil, true
	c := NewCache(nil)
	delCalls := 0
	h := c.Get(0, 0, func() (int, Value) {
		v := &zzVal{}
		zzVals = append(zzVals, v)
		return 1, v
	})
	if vpChoose(2) == 1 {
		c.Delete(0, 0, func() { delCalls++ })
		vpAssert(delCalls == 0, "delete-callback-waits-for-the-handle")
	} else {
		delCalls = -1
	}
	go func() { h.Release() }()
	go func() { c.Close(true) }()
	vpJoin()
	vpAssert(zzVals[0].released >= 1, "value-finalised-under-forced-close")
	vpAssert(zzVals[0].released <= 1, "value-finalised-at-most-once-under-forced-close")
	vpAssert(delCalls == -1 || delCalls == 1, "delete-callback-exactly-once-under-forced-close")
}
