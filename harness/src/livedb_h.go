package leveldb

// A DB over a live session: the real reference loop and compaction-error
// goroutine run as threads, so the real DB.Close can be executed.

import (
	"container/list"

	"github.com/syndtr/goleveldb/leveldb/memdb"
	"github.com/syndtr/goleveldb/leveldb/opt"
	"github.com/syndtr/goleveldb/leveldb/storage"
)

func zzLiveDB() *DB {
	stor := storage.NewMemStorage()
	lock, _ := stor.Lock()
	s := &session{
		stor:      newIStorage(stor),
		storLock:  lock,
		refCh:     make(chan *vTask),
		relCh:     make(chan *vTask),
		deltaCh:   make(chan *vDelta),
		abandon:   make(chan int64),
		fileRefCh: make(chan chan map[int64]int),
		closeC:    make(chan struct{}),
	}
	s.setOptions(&opt.Options{})
	s.tops = newTableOps(s)
	s.closeW.Add(1)
	go s.refLoop()
	s.setVersion(nil, newVersion(s))
	db := &DB{
		s:            s,
		seq:          10,
		snapsList:    list.New(),
		memPool:      make(chan *memdb.DB, 1),
		writeMergeC:  make(chan writeMerge),
		writeMergedC: make(chan bool),
		writeLockC:   make(chan struct{}, 1),
		writeAckC:    make(chan error),
		tcompCmdC:    make(chan cCmd),
		tcompPauseC:  make(chan chan<- struct{}),
		mcompCmdC:    make(chan cCmd),
		compErrC:     make(chan error),
		compPerErrC:  make(chan error),
		compErrSetC:  make(chan error),
		closeC:       make(chan struct{}),
	}
	db.mem = &memDB{db: db, DB: memdb.New(s.icmp, 64), ref: 1}
	go db.compactionError()
	return db
}
