package table

// C13 (Tier B): a whole table produced by the real Writer and opened by the
// real Reader yields exactly the stored pairs — Get, Find, iteration with any
// range and movement sequence, OffsetOf — for every block layout within the
// bound; and after one altered byte reads return original pairs or report
// corruption (C13-dmg). Also C16-find: the filter changes cost, not results.

import (
	"bytes"
	"io"

	"github.com/syndtr/goleveldb/leveldb/cache"
	"github.com/syndtr/goleveldb/leveldb/comparer"
	"github.com/syndtr/goleveldb/leveldb/errors"
	"github.com/syndtr/goleveldb/leveldb/filter"
	"github.com/syndtr/goleveldb/leveldb/opt"
	"github.com/syndtr/goleveldb/leveldb/storage"
	"github.com/syndtr/goleveldb/leveldb/util"
)

type zzFileBuf struct{ data []byte }

func (f *zzFileBuf) Write(p []byte) (int, error) { f.data = append(f.data, p...); return len(p), nil }
func (f *zzFileBuf) ReadAt(p []byte, off int64) (int, error) {
	if off < 0 || off > int64(len(f.data)) {
		return 0, io.EOF
	}
	n := copy(p, f.data[off:])
	if n < len(p) {
		return n, io.EOF
	}
	return n, nil
}

var zzBlockSizes = []int{1, 24, 4096}

type zzTbl struct {
	f    *zzFileBuf
	o    *opt.Options
	K, V [][]byte
	w    *Writer
}

var zzTblMaxKey = zzMaxKey

func zzBuildTable(n int, flt filter.Filter) *zzTbl {
	o := &opt.Options{
		BlockSize:            zzBlockSizes[vpChoose(len(zzBlockSizes))],
		BlockRestartInterval: 1 + vpChoose(2),
		Compression:          opt.NoCompression,
		Filter:               flt,
		FilterBaseLg:         3,
		Comparer:             comparer.DefaultComparer,
	}
	t := &zzTbl{f: &zzFileBuf{}, o: o}
	w := NewWriter(t.f, o, nil, 64)
	for i := 0; i < n; i++ {
		k := zzKB(1, zzTblMaxKey)
		if i > 0 {
			vpAssume(bytes.Compare(t.K[i-1], k) < 0)
		}
		v := zzKB(0, zzMaxVal)
		vpAssert(w.Append(k, v) == nil, "append-ok")
		t.K = append(t.K, k)
		t.V = append(t.V, v)
	}
	vpAssert(w.Close() == nil, "close-ok")
	vpAssert(w.BytesLen() == len(t.f.data), "byteslen-equals-file-size")
	vpAssert(w.EntriesLen() == n, "entrieslen")
	t.w = w
	return t
}

func (t *zzTbl) open() *Reader {
	r, err := NewReader(t.f, int64(len(t.f.data)), storage.FileDesc{Type: storage.TypeTable, Num: 1}, nil, nil, t.o)
	vpAssert(err == nil, "newreader-ok")
	return r
}

func zzTablePoint(n int) {
	t := zzBuildTable(n, nil)
	r := t.open()
	vpAssert(r.err == nil, "reader-no-error")
	// exact lookups of every stored key
	for i := range t.K {
		v, err := r.Get(t.K[i], nil)
		vpAssert(err == nil, "get-stored-found")
		vpAssert(len(v) == len(t.V[i]) && vpEqBytes(v, t.V[i]), "get-stored-value")
	}
	// any key: Find = first pair >= key; Get = exact or not found
	q := zzKB(0, zzMaxKey)
	p := len(t.K)
	for i := range t.K {
		if bytes.Compare(t.K[i], q) >= 0 {
			p = i
			break
		}
	}
	rk, rv, err := r.Find(q, false, nil)
	if p < len(t.K) {
		vpAssert(err == nil, "find-found")
		vpAssert(len(rk) == len(t.K[p]) && vpEqBytes(rk, t.K[p]), "find-key")
		vpAssert(len(rv) == len(t.V[p]) && vpEqBytes(rv, t.V[p]), "find-value")
	} else {
		vpAssert(err == ErrNotFound, "find-notfound")
	}
	gv, gerr := r.Get(q, nil)
	if p < len(t.K) && bytes.Equal(t.K[p], q) {
		vpAssert(gerr == nil && len(gv) == len(t.V[p]) && vpEqBytes(gv, t.V[p]), "get-exact")
	} else {
		vpAssert(gerr == ErrNotFound, "get-absent-notfound")
	}
	// approximate offsets never decrease as the key grows
	q2 := zzKB(0, zzMaxKey)
	vpAssume(bytes.Compare(q, q2) <= 0)
	o1, e1 := r.OffsetOf(q)
	o2, e2 := r.OffsetOf(q2)
	vpAssert(e1 == nil && e2 == nil, "offsetof-ok")
	vpAssert(o1 <= o2, "offsetof-monotone")
	vpAssert(o2 <= int64(len(t.f.data)), "offsetof-within-file")
	if len(t.K) > 0 {
		past := []byte{0xff, 0xff, 0xff} // beyond every stored key and every shortened index key
		oe, ee := r.OffsetOf(past)
		vpAssert(ee == nil && oe == int64(r.metaBH.offset), "offsetof-past-end-is-end-of-data")
	}
	r.Release()
	_, err = r.Get(q, nil)
	vpAssert(err == ErrReaderReleased, "released-reader")
}

func zzTableIter(n int) {
	zzTblMaxKey = zzIterMaxKey
	t := zzBuildTable(n, nil)
	r := t.open()
	var rg *util.Range
	switch vpChoose(4) {
	case 0:
	case 1:
		rg = &util.Range{Start: zzKB(zzIterMinKey, zzIterMaxKey)}
	case 2:
		rg = &util.Range{Limit: zzKB(zzIterMinKey, zzIterMaxKey)}
	default:
		rg = &util.Range{Start: zzKB(zzIterMinKey, zzIterMaxKey), Limit: zzKB(zzIterMinKey, zzIterMaxKey)}
		vpAssume(bytes.Compare(rg.Start, rg.Limit) <= 0)
	}
	var K, V [][]byte
	for i := range t.K {
		if rg != nil && rg.Start != nil && bytes.Compare(t.K[i], rg.Start) < 0 {
			continue
		}
		if rg != nil && rg.Limit != nil && bytes.Compare(t.K[i], rg.Limit) >= 0 {
			continue
		}
		K = append(K, t.K[i])
		V = append(V, t.V[i])
	}
	m := len(K)
	it := r.NewIterator(rg, nil)
	p := -1
	for step := 0; step < zzMoves; step++ {
		var ok bool
		switch vpChoose(5) {
		case 0:
			ok = it.First()
			p = 0
		case 1:
			ok = it.Last()
			p = m - 1
		case 2:
			ok = it.Next()
			if p < m {
				p++
			}
		case 3:
			ok = it.Prev()
			if p > -1 {
				p--
			}
		default:
			sk := zzKB(zzIterMinKey, zzIterMaxKey)
			ok = it.Seek(sk)
			p = m
			for i := range K {
				if bytes.Compare(K[i], sk) >= 0 {
					p = i
					break
				}
			}
		}
		valid := p >= 0 && p < m
		vpAssert(it.Error() == nil, "no-error")
		vpAssert(ok == valid, "move-result")
		vpAssert(it.Valid() == valid, "valid")
		if valid {
			vpAssert(len(it.Key()) == len(K[p]) && vpEqBytes(it.Key(), K[p]), "iter-key")
			vpAssert(len(it.Value()) == len(V[p]) && vpEqBytes(it.Value(), V[p]), "iter-value")
		} else {
			vpAssert(it.Key() == nil && it.Value() == nil, "iter-nil-when-invalid")
		}
	}
	it.Release()
}

func ZZ_C13_table_point0() { zzTablePoint(0) }
func ZZ_C13_table_point1() { zzTablePoint(1) }
func ZZ_C13_table_point2() { zzTablePoint(2) }
func ZZ_C13_table_point3() { zzTablePoint(3) }
func ZZ_C13_table_iter0()  { zzTableIter(0) }
func ZZ_C13_table_iter2()  { zzTableIter(2) }
func ZZ_C13_table_iter3()  { zzTableIter(3) }

// out-of-order keys are refused by the writer
func ZZ_C13_table_order() {
	o := &opt.Options{Compression: opt.NoCompression, Comparer: comparer.DefaultComparer}
	w := NewWriter(&zzFileBuf{}, o, nil, 64)
	a, b := zzKB(0, zzMaxKey), zzKB(0, zzMaxKey)
	vpAssert(w.Append(a, nil) == nil, "append-ok")
	err := w.Append(b, nil)
	vpAssert((err == nil) == (bytes.Compare(a, b) < 0), "append-accepts-only-increasing-keys")
}

func ZZ_C13_table_witness() {
	zzTablePoint(2)
	vpAssert(false, "witness")
}

// ---- C13-dmg: one altered byte inside a checksummed block ----

func zzTableDamage(n int) {
	t := zzBuildTable(n, nil)
	size := len(t.f.data)
	// every byte before the footer belongs to a block or its 5-byte trailer
	d := vpChoose(size - footerLen)
	v := vpNondetU8()
	vpAssume(v != t.f.data[d])
	t.f.data = append([]byte(nil), t.f.data...)
	t.f.data[d] = v
	r, err := NewReader(t.f, int64(size), storage.FileDesc{Type: storage.TypeTable, Num: 1}, nil, nil, t.o)
	vpAssert(err == nil, "newreader-returns-reader")
	q := zzKB(0, zzMaxKey)
	rk, rv, ferr := r.Find(q, false, nil)
	if ferr == nil {
		// an original pair, attributed to its own key, and the right one for q
		p := len(t.K)
		for i := range t.K {
			if bytes.Compare(t.K[i], q) >= 0 {
				p = i
				break
			}
		}
		vpAssert(p < len(t.K), "damaged-find-invents-nothing")
		if p < len(t.K) {
			vpAssert(len(rk) == len(t.K[p]) && vpEqBytes(rk, t.K[p]), "damaged-find-key-original")
			vpAssert(len(rv) == len(t.V[p]) && vpEqBytes(rv, t.V[p]), "damaged-find-value-original")
		}
	} else {
		vpAssert(ferr == ErrNotFound || errors.IsCorrupted(ferr), "damaged-find-error-kind")
		if ferr == ErrNotFound {
			// "not found" only when there really is no stored key >= q: an
			// unreadable block must be reported, not skipped
			for i := range t.K {
				vpAssert(bytes.Compare(t.K[i], q) < 0, "damaged-find-hides-nothing")
			}
		}
	}
	// iteration: yields a subsequence of the original pairs, or reports corruption
	it := r.NewIterator(nil, nil)
	last := -1
	for it.Next() {
		found := -1
		for i := last + 1; i < len(t.K); i++ {
			if len(it.Key()) == len(t.K[i]) && bytes.Equal(it.Key(), t.K[i]) {
				found = i
				break
			}
		}
		vpAssert(found >= 0, "damaged-iter-key-original-in-order")
		if found < 0 {
			break
		}
		vpAssert(len(it.Value()) == len(t.V[found]) && vpEqBytes(it.Value(), t.V[found]), "damaged-iter-value-original")
		last = found
	}
	ierr := it.Error()
	vpAssert(ierr == nil || errors.IsCorrupted(ierr), "damaged-iter-error-kind")
	it.Release()
}

func ZZ_C13_table_dmg1() { zzTableDamage(1) }
func ZZ_C13_table_dmg2() { zzTableDamage(2) }

// ---- C16-find: filtered and unfiltered lookups agree ----

func zzCopyB(b []byte) []byte { return append([]byte(nil), b...) }

func zzTableFilter(n int) {
	t := zzBuildTable(n, zzExactFilter{})
	r := t.open()
	vpAssert(r.filter != nil, "filter-recognised")
	for i := range t.K {
		k1, v1, e1 := r.Find(t.K[i], true, nil)
		vpAssert(e1 == nil, "filtered-finds-stored-key")
		vpAssert(len(k1) == len(t.K[i]) && vpEqBytes(k1, t.K[i]) && len(v1) == len(t.V[i]) && vpEqBytes(v1, t.V[i]), "filtered-returns-stored-pair")
	}
	// approximate offsets with a filter block present: monotone, inside the
	// data area, also for keys past the last entry
	qa, qb := zzKB(0, zzMaxKey), zzKB(0, zzMaxKey)
	vpAssume(bytes.Compare(qa, qb) <= 0)
	oa, ea := r.OffsetOf(qa)
	ob, eb := r.OffsetOf(qb)
	vpAssert(ea == nil && eb == nil, "offsetof-ok-with-filter")
	vpAssert(oa <= ob, "offsetof-monotone-with-filter")
	vpAssert(ob <= int64(len(t.f.data)), "offsetof-within-file-with-filter")
	// a key past the last entry maps to the end of the data area, i.e. where
	// the first non-data block (the filter block) starts
	if len(t.K) > 0 {
		past := []byte{0xff, 0xff, 0xff} // beyond every stored key and every shortened index key
		oe, ee := r.OffsetOf(past)
		vpAssert(ee == nil && oe == int64(r.filterBH.offset), "offsetof-past-end-is-end-of-data-with-filter")
	}
	// reading with the filter policy switched off gives the same answers
	o2 := *t.o
	o2.Filter = nil
	r2, err := NewReader(t.f, int64(len(t.f.data)), storage.FileDesc{Type: storage.TypeTable, Num: 1}, nil, nil, &o2)
	vpAssert(err == nil && r2.err == nil, "reader-without-policy-ok")
	for i := range t.K {
		_, v2, e2 := r2.Find(t.K[i], true, nil)
		vpAssert(e2 == nil && len(v2) == len(t.V[i]) && vpEqBytes(v2, t.V[i]), "no-policy-reader-same-result")
	}
}

func ZZ_C16_find2() { zzTableFilter(2) }
func ZZ_C16_find3() { zzTableFilter(3) }


// ---- C20-get: a value returned by a table lookup is the caller's own copy ----
// (documented on Reader.Find/Get and DB.Get). The table is read through a
// shared block cache, with and without a buffer pool; the returned value is
// overwritten with arbitrary bytes and the lookup repeated.
func ZZ_C20_tableget() {
	t := zzBuildTable(1+vpChoose(2), nil)
	var bpool *util.BufferPool
	if vpChoose(2) == 1 {
		bpool = util.NewBufferPool(64)
	}
	var ns *cache.NamespaceGetter
	if vpChoose(2) == 1 {
		ns = &cache.NamespaceGetter{Cache: cache.NewCache(cache.NewLRU(1 << 20)), NS: 1}
	}
	r, err := NewReader(t.f, int64(len(t.f.data)), storage.FileDesc{Type: storage.TypeTable, Num: 1}, ns, bpool, t.o)
	vpAssert(err == nil && r.err == nil, "newreader-ok")
	i := vpChoose(len(t.K))
	want := zzCopyB(t.V[i])
	k := zzCopyB(t.K[i])
	// read options vary per call: a read that does not fill the cache is still
	// served from it when the block is already resident
	ros := []*opt.ReadOptions{nil, {DontFillCache: true}}
	if vpChoose(2) == 1 {
		_, _ = r.Get(k, ros[vpChoose(2)]) // a previous read may have made the block resident
	}
	v1, e1 := r.Get(k, ros[vpChoose(2)])
	vpAssert(e1 == nil && len(v1) == len(want) && vpEqBytes(v1, want), "first-get")
	vpAssert(vpEqBytes(k, t.K[i]), "get-arg-unmodified")
	vpHavoc(v1)
	vpHavoc(k)
	v2, e2 := r.Get(t.K[i], ros[vpChoose(2)])
	vpAssert(e2 == nil && len(v2) == len(want) && vpEqBytes(v2, want), "returned-value-is-a-private-copy")
	rk, rv, e3 := r.Find(t.K[i], false, ros[vpChoose(2)])
	vpAssert(e3 == nil, "find-ok")
	vpHavoc(rk)
	vpHavoc(rv)
	rk2, rv2, e4 := r.Find(t.K[i], false, nil)
	vpAssert(e4 == nil && len(rk2) == len(t.K[i]) && vpEqBytes(rk2, t.K[i]) && len(rv2) == len(want) && vpEqBytes(rv2, want), "find-results-are-private-copies")
}
