package main

import (
	"encoding/json"
	"os"
	"path/filepath"
	"sort"
	"strings"
	"time"
)

type Evidence struct {
	prop     string
	tier     string
	seed     int
	loaded   map[string]*Loaded
	suites   []map[string]interface{}
	harness  []map[string]interface{}
	notes    []string
	funcs    map[string]string // function -> file
	hfuncs   map[string]bool
	files    map[string]string
	states   int64
	trans    int64
	queries  int
	unsat    int
	sat      int
	unknown  int
	solverS  float64
	replayed int
	passReplayed int
	samples  []interface{}
	viol     int
	wall     float64
	exit     int
	assumptions []string
	outside  []string
	bounds   []string
	stubs    []string
	scaled   []string
}

func newEvidence(prop, tier string, seed int) *Evidence {
	return &Evidence{prop: prop, tier: tier, seed: seed, loaded: map[string]*Loaded{}, funcs: map[string]string{}, hfuncs: map[string]bool{}, files: map[string]string{}}
}

func (e *Evidence) addNote(s string) { e.notes = append(e.notes, s) }

func (e *Evidence) addSuite(s *Suite, ld *Loaded) {
	e.loaded[s.Name] = ld
	rw := []string{}
	for _, r := range s.Rewrites {
		rw = append(rw, r.File+": "+r.Old+" => "+r.New)
		e.scaled = append(e.scaled, s.Name+": "+r.File+": `"+r.Old+"` => `"+r.New+"`")
	}
	e.suites = append(e.suites, map[string]interface{}{
		"suite": s.Name, "load_s": ld.loadTime.Seconds(), "rewrites": rw, "consts": s.Consts, "bounds": s.Bounds,
	})
	if s.Bounds != "" {
		e.bounds = append(e.bounds, s.Name+": "+s.Bounds)
	}
	for _, o := range s.Outside {
		e.outside = append(e.outside, s.Name+": "+o)
	}
	for _, o := range s.Stubs {
		e.stubs = append(e.stubs, s.Name+": "+o)
	}
}

func (e *Evidence) addHarness(spec *HarnessSpec, r *HarnessResult, confirmed, known []string) {
	paths := map[string]int64{}
	for st, n := range r.Paths {
		paths[st.String()] = n
		if st != PathInfeasible && st != PathExhausted {
			e.states += n
		}
	}
	e.trans += r.Steps
	e.queries += r.Queries
	e.unsat += r.Unsat
	e.sat += r.Sat
	e.unknown += r.UnknownQ
	e.solverS += r.SolverTime.Seconds()
	e.viol += len(confirmed)
	h := map[string]interface{}{
		"harness": spec.Fn, "pkg": spec.Pkg, "tier": spec.Tier, "note": spec.Note,
		"paths": paths, "ssa_instructions": r.Steps, "queries": r.Queries, "unsat": r.Unsat, "sat": r.Sat, "unknown": r.UnknownQ,
		"solver_s": r.SolverTime.Seconds(), "wall_s": r.Wall.Seconds(), "max_decision_depth": r.MaxDepth,
		"assertions_reached": r.AssertReach, "assertions_proved": r.AssertProved,
		"violations_confirmed": confirmed, "known_findings_reconfirmed": known,
		"opaque_abstraction_used": r.UsedOpaque, "completed": !r.TimedOut, "reachability_witness": spec.Witness,
	}
	e.harness = append(e.harness, h)
	ld := (*Loaded)(nil)
	for _, l := range e.loaded {
		if _, ok := l.pkgs[spec.Pkg]; ok {
			ld = l
		}
	}
	for f, file := range r.Funcs {
		if !strings.Contains(f, modPath) || strings.HasSuffix(f, ".init") {
			continue
		}
		short := strings.ReplaceAll(f, modPath+"/", "")
		if strings.Contains(filepath.Base(file), "zz_") {
			e.hfuncs[short] = true
			continue
		}
		e.funcs[short] = file
		if ld != nil && file != "" {
			e.files[strings.TrimPrefix(file, ld.repo+"/")] = ld.hashFile(file)
		}
	}
	for _, s := range r.Samples {
		if len(e.samples) < 8 {
			s["harness"] = spec.Fn
			e.samples = append(e.samples, s)
		}
	}
}

func (e *Evidence) finish(wall time.Duration, exit int) {
	e.wall = wall.Seconds()
	e.exit = exit
}

func (e *Evidence) write() error {
	funcs := make([]string, 0, len(e.funcs))
	for f := range e.funcs {
		funcs = append(funcs, f)
	}
	sort.Strings(funcs)
	files := e.files
	hf := make([]string, 0, len(e.hfuncs))
	for f := range e.hfuncs {
		hf = append(hf, f)
	}
	sort.Strings(hf)
	if len(e.samples) == 0 {
		e.samples = append(e.samples, map[string]interface{}{"note": "no completed path sample"})
	}
	states := e.states
	if states == 0 {
		states = 1 // schema minimum; see notes
		e.notes = append(e.notes, "no path completed: states forced to schema minimum 1")
	}
	trans := e.trans
	if trans == 0 {
		trans = 1
	}
	cov := map[string]interface{}{
		"states":                        states,
		"transitions":                   trans,
		"traces_validated_against_impl": e.replayed,
		"samples":                       e.samples,
		"exhaustive":                    e.exit == 0,
		"explanation":                   "states = symbolic paths explored to their end (each path stands for every input satisfying its path condition); transitions = SSA instructions executed symbolically; every assertion and branch whose condition has a symbolic part was decided by the SMT solver (unsat = holds for all inputs of that path); conditions without a symbolic part fold to constants, which is the common case in the thread-schedule harnesses, where the exploration is over scheduling choices (a small 'queries' count there says exactly that). traces_validated_against_impl = witnesses and sampled completed paths replayed against the natively compiled package (thread harnesses: in the executor's concrete mode).",
		"functions_encoded":             funcs,
		"harness_functions":             hf,
		"repo_files_sha256_prefix":      files,
		"harnesses":                     e.harness,
		"suites":                        e.suites,
		"completed_paths_replayed_natively": e.passReplayed,
		"queries":                       e.queries,
		"unsat":                         e.unsat,
		"sat":                           e.sat,
		"unknown":                       e.unknown,
		"solver_s":                      e.solverS,
		"bounds":                        e.bounds,
		"outside_the_claim":             e.outside,
		"stubs":                         e.stubs,
		"scaled_constants":              e.scaled,
		"notes":                         e.notes,
		"verdict_exit_code":             e.exit,
	}
	doc := map[string]interface{}{
		"property_id": e.prop,
		"tier":        e.tier,
		"seed":        e.seed,
		"level":       "model_checking",
		"coverage":    cov,
		"assumptions": append([]string{
			"bounded: every claim holds only within the bounds listed under coverage.bounds",
			"the symbolic executor (symgo) implements go/ssa semantics correctly; cross-checked by native replay of witnesses and the concrete-mode selftest",
			"z3 answers are correct; 'unknown' is never counted as success",
		}, e.assumptions...),
		"wall_s":     e.wall,
		"violations": e.viol,
	}
	dir := filepath.Join(verifDir(), "evidence")
	os.MkdirAll(dir, 0o755)
	b, err := json.MarshalIndent(doc, "", " ")
	if err != nil {
		return err
	}
	return os.WriteFile(filepath.Join(dir, e.prop+".json"), b, 0o644)
}
