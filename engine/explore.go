package main

// Path exploration: depth-first search over decisions with re-execution.
// A path is identified by its list of events (decisions and asserted facts);
// to explore an alternative the harness is re-run from the start with the
// recorded outcomes replayed, so no interpreter state is ever copied. The
// solver's assertion stack is kept in step with the event list.

import (
	"fmt"
	"os"
	"sort"
	"strconv"
	"strings"
	"sync"
	"time"

	"golang.org/x/tools/go/ssa"
)

var forceChoices []int

func init() {
	if s := os.Getenv("VERIF_FORCE"); s != "" {
		for _, f := range strings.Split(s, ",") {
			v, _ := strconv.Atoi(f)
			forceChoices = append(forceChoices, v)
		}
	}
}

type evKind uint8

const (
	evBranch evKind = iota
	evValue
	evChoice
	evFact
)

type Event struct {
	kind evKind
	lvl  int // solver levels before this event
	// branch
	taken      bool
	otherOK    bool   // other side feasible and not yet explored
	otherModel *Model // model for the other side (same worker only)
	// value
	val     uint64
	tried   []uint64
	hasMore bool
	// choice
	choice int
	n      int
}

type Config struct {
	Harness      string
	Timeout      time.Duration
	QueryTimeout int // ms
	MaxSteps     int64
	MaxPaths     int64
	MaxSymIndex  int
	OpaqueDiv    bool
	Workers      int
	SolverKind   string
	MaxViol      int
	Concrete     *concreteTape
	ExpectPanic  bool
	SwitchBudget int
	Verbose      bool
	spec         *HarnessSpec
	CollectSigs  bool
}

type Violation struct {
	Harness  string      `json:"harness"`
	Kind     string      `json:"kind"` // "assert","panic","deadlock"
	ID       string      `json:"id"`
	Msg      string      `json:"msg"`
	Pos      string      `json:"pos"`
	Tape     []TapeEntry `json:"tape"`
	Choices  []int       `json:"choices"`
	Stack    []string    `json:"stack,omitempty"`
}

type HarnessResult struct {
	Harness     string
	Paths       map[PathStatus]int64
	Steps       int64
	Queries     int
	Sat, Unsat  int
	UnknownQ    int
	SolverTime  time.Duration
	Wall        time.Duration
	Violations  []Violation
	AssertReach map[string]int64
	AssertProved map[string]int64
	Funcs       map[string]string
	Inconclusive []string
	Samples     []map[string]interface{}
	UsedOpaque  bool
	TimedOut    bool
	MaxDepth    int
	Sigs        map[string]int
	DoneTapes   [][]TapeEntry
}

type job struct {
	prefix []Event
}

type shared struct {
	mu       sync.Mutex
	cond     *sync.Cond
	queue    []job
	idle     int
	nworkers int
	done     bool
	res      *HarnessResult
	deadline time.Time
	violKeys map[string]bool
	stop     bool
}

type Worker struct {
	id     int
	cfg    *Config
	ld     *Loaded
	sh     *shared
	ts     *TermStore
	solver *Solver
	model  *Model
	modelOK bool
	events []Event
	pos    int // next event index in the current execution
	synced int // events [0,synced) are reflected in the solver
	base   int // events below base are fixed (job prefix)
	in     *Interp
	usedOpaque bool
	spec   *HarnessSpec
	intrCache map[*ssa.Function]intrinsicFn
	// local stats
	paths   map[PathStatus]int64
	steps   int64
	reach   map[string]int64
	proved  map[string]int64
	funcs   map[string]string
	samples []map[string]interface{}
	doneTapes [][]TapeEntry
	inconcl []string
	maxDepth int
}

func runHarness(ld *Loaded, cfg *Config) *HarnessResult {
	res := &HarnessResult{Harness: cfg.Harness, Paths: map[PathStatus]int64{}, AssertReach: map[string]int64{}, AssertProved: map[string]int64{}, Funcs: map[string]string{}}
	sh := &shared{res: res, nworkers: cfg.Workers, violKeys: map[string]bool{}}
	sh.cond = sync.NewCond(&sh.mu)
	sh.deadline = time.Now().Add(cfg.Timeout)
	sh.queue = []job{{}}
	t0 := time.Now()
	var wg sync.WaitGroup
	for i := 0; i < cfg.Workers; i++ {
		wg.Add(1)
		go func(id int) {
			defer wg.Done()
			w := &Worker{id: id, cfg: cfg, ld: ld, sh: sh, spec: cfg.spec}
			w.run()
		}(i)
	}
	wg.Wait()
	res.Wall = time.Since(t0)
	return res
}

func (w *Worker) run() {
	w.ts = NewTermStore()
	var err error
	w.solver, err = NewSolver(w.ts, w.cfg.SolverKind, w.cfg.QueryTimeout)
	if err != nil {
		fmt.Fprintln(os.Stderr, "cannot start solver:", err)
		os.Exit(2)
	}
	defer w.solver.Close()
	w.model = NewModel()
	w.paths = map[PathStatus]int64{}
	w.reach = map[string]int64{}
	w.proved = map[string]int64{}
	w.funcs = map[string]string{}
	defer w.mergeStats()
	for {
		j, ok := w.getJob()
		if !ok {
			return
		}
		w.runJob(j)
	}
}

func (w *Worker) getJob() (job, bool) {
	sh := w.sh
	sh.mu.Lock()
	defer sh.mu.Unlock()
	for {
		if sh.done || sh.stop {
			return job{}, false
		}
		if len(sh.queue) > 0 {
			j := sh.queue[len(sh.queue)-1]
			sh.queue = sh.queue[:len(sh.queue)-1]
			return j, true
		}
		sh.idle++
		if sh.idle == sh.nworkers {
			sh.done = true
			sh.cond.Broadcast()
			return job{}, false
		}
		sh.cond.Wait()
		sh.idle--
	}
}

func (w *Worker) mergeStats() {
	sh := w.sh
	sh.mu.Lock()
	defer sh.mu.Unlock()
	r := sh.res
	for k, v := range w.paths {
		r.Paths[k] += v
	}
	r.Steps += w.steps
	r.Queries += w.solver.Queries
	r.Sat += w.solver.NSat
	r.Unsat += w.solver.NUnsat
	r.UnknownQ += w.solver.NUnknown
	r.SolverTime += w.solver.SolverTime
	for k, v := range w.reach {
		r.AssertReach[k] += v
	}
	for k, v := range w.proved {
		r.AssertProved[k] += v
	}
	for k, v := range w.funcs {
		r.Funcs[k] = v
	}
	if len(r.Samples) < 6 {
		r.Samples = append(r.Samples, w.samples...)
	}
	r.Inconclusive = append(r.Inconclusive, w.inconcl...)
	if len(r.DoneTapes) < 4 {
		r.DoneTapes = append(r.DoneTapes, w.doneTapes...)
	}
	if w.usedOpaque {
		r.UsedOpaque = true
	}
	if w.maxDepth > r.MaxDepth {
		r.MaxDepth = w.maxDepth
	}
}

// runJob explores the subtree below the job's prefix.
func (w *Worker) runJob(j job) {
	// reset solver: level 0 stays empty, level 1 holds the facts asserted
	// before the first decision of this job
	w.solver.Pop(w.solver.levels)
	w.solver.Push()
	w.events = j.prefix
	w.base = len(j.prefix) - 1 // the last prefix event may still have alternatives (values, choices)
	if w.base < 0 {
		w.base = 0
	}
	w.synced = 0
	w.modelOK = false
	for {
		if time.Now().After(w.sh.deadline) {
			w.sh.mu.Lock()
			w.sh.res.TimedOut = true
			w.sh.stop = true
			w.sh.cond.Broadcast()
			w.sh.mu.Unlock()
			return
		}
		w.sh.mu.Lock()
		stop := w.sh.stop
		w.sh.mu.Unlock()
		if stop {
			return
		}
		w.runPath()
		if w.solver.dead {
			// hard timeout: restart the solver; the next execution re-asserts the prefix
			q, sa, un, uk, st := w.solver.Queries, w.solver.NSat, w.solver.NUnsat, w.solver.NUnknown, w.solver.SolverTime
			w.solver.Close()
			ns, err := NewSolver(w.ts, w.cfg.SolverKind, w.cfg.QueryTimeout)
			if err != nil {
				panic(engineError{"cannot restart solver: " + err.Error()})
			}
			ns.Queries, ns.NSat, ns.NUnsat, ns.NUnknown, ns.SolverTime = q, sa, un, uk, st
			w.solver = ns
			w.solver.Push()
			w.synced = 0
			w.modelOK = false
		}
		w.maybeDonate()
		if !w.backtrack() {
			return
		}
	}
}

// backtrack moves to the next unexplored alternative; false if none.
func (w *Worker) backtrack() bool {
	for i := len(w.events) - 1; i >= w.base; i-- {
		ev := &w.events[i]
		switch ev.kind {
		case evBranch:
			if ev.otherOK {
				ev.otherOK = false
				ev.taken = !ev.taken
				w.truncate(i)
				w.model = ev.otherModel
				w.modelOK = ev.otherModel != nil
				ev.otherModel = nil
				if w.model == nil {
					w.model = NewModel()
				}
				return true
			}
		case evValue:
			if ev.hasMore {
				ev.tried = append(ev.tried, ev.val)
				ev.hasMore = false
				w.truncate(i)
				w.events[i].val = 0
				w.events[i].lvl = -1 // marker: needs a new value
				w.modelOK = false
				return true
			}
		case evChoice:
			if ev.choice+1 < ev.n {
				ev.choice++
				w.truncate(i)
				return true
			}
		}
	}
	return false
}

// truncate keeps events[0..i] (inclusive; event i is about to be re-applied)
// and pops the solver to the level before event i.
func (w *Worker) truncate(i int) {
	ev := w.events[i]
	w.events = w.events[:i+1]
	if i < w.synced {
		if ev.lvl >= 0 {
			w.solver.Pop(w.solver.levels - ev.lvl)
		}
		w.synced = i
	}
}

// maybeDonate hands the shallowest open alternative to an idle worker.
func (w *Worker) maybeDonate() {
	sh := w.sh
	sh.mu.Lock()
	need := sh.idle > 0 && len(sh.queue) < sh.idle
	sh.mu.Unlock()
	if !need {
		return
	}
	for i := w.base; i < len(w.events); i++ {
		ev := &w.events[i]
		var alt Event
		ok := false
		switch ev.kind {
		case evBranch:
			if ev.otherOK {
				alt = Event{kind: evBranch, taken: !ev.taken, lvl: -2}
				ev.otherOK = false
				ev.otherModel = nil
				ok = true
			}
		case evValue:
			if ev.hasMore {
				alt = Event{kind: evValue, tried: append(append([]uint64(nil), ev.tried...), ev.val), lvl: -1}
				ev.hasMore = false
				ok = true
			}
		case evChoice:
			if ev.choice+1 < ev.n {
				alt = Event{kind: evChoice, choice: ev.choice + 1, n: ev.n}
				ev.n = ev.choice + 1
				ok = true
			}
		}
		if ok {
			prefix := make([]Event, i+1)
			for k := 0; k < i; k++ {
				e := w.events[k]
				e.otherOK = false
				e.otherModel = nil
				e.hasMore = false
				if e.kind == evChoice {
					e.n = e.choice + 1
				}
				prefix[k] = e
			}
			prefix[i] = alt
			// the new job may explore alternatives of event i itself: base = i
			sh.mu.Lock()
			sh.queue = append(sh.queue, job{prefix: prefix})
			sh.cond.Signal()
			sh.mu.Unlock()
			return
		}
	}
}

// ---- per-path execution ----

func (w *Worker) runPath() {
	in := newInterp(w)
	w.in = in
	w.pos = 0
	status, msg := in.runHarnessOnce(w.cfg.Harness)
	w.paths[status]++
	w.steps += in.steps
	if len(w.events) > w.maxDepth {
		w.maxDepth = len(w.events)
	}
	for k, v := range in.asserts {
		w.reach[k] += int64(v)
	}
	for f := range in.funcsHit {
		name := f.String()
		if _, ok := w.funcs[name]; !ok {
			w.funcs[name] = in.prog.Fset.Position(f.Pos()).Filename
		}
	}
	if pl := os.Getenv("VERIF_PATHLOG"); pl != "" || w.cfg.CollectSigs {
		var sb []byte
		for _, ev := range w.events {
			switch ev.kind {
			case evBranch:
				if ev.taken {
					sb = append(sb, 'T')
				} else {
					sb = append(sb, 'F')
				}
			case evChoice:
				sb = append(sb, byte('0'+ev.choice%10), byte('0'+ev.choice/10))
			case evValue:
				sb = append(sb, []byte(fmt.Sprintf("v%d.", ev.val))...)
			case evFact:
				sb = append(sb, '.')
			}
		}
		w.sh.mu.Lock()
		if pl != "" {
			f, _ := os.OpenFile(pl, os.O_APPEND|os.O_CREATE|os.O_WRONLY, 0o644)
			fmt.Fprintf(f, "%s %s\n", status, sb)
			f.Close()
		}
		if w.cfg.CollectSigs {
			if w.sh.res.Sigs == nil {
				w.sh.res.Sigs = map[string]int{}
			}
			w.sh.res.Sigs[status.String()+" "+string(sb)]++
		}
		w.sh.mu.Unlock()
	}
	switch status {
	case PathUnsupported, PathBudget, PathUnknown:
		w.inconcl = append(w.inconcl, fmt.Sprintf("%s: %s", status, msg))
		if w.cfg.Verbose {
			fmt.Fprintf(os.Stderr, "[w%d] %s: %s\n", w.id, status, msg)
		}
	case PathDone:
		if len(w.samples) < 2 {
			w.samples = append(w.samples, in.sample())
		}
		if len(w.doneTapes) < 1 && w.ensureModelQuiet() {
			var tp []TapeEntry
			for _, e := range in.tape {
				te := e
				if e.Term != nil {
					te.Val = w.model.Eval(e.Term)
				}
				if e.KeyTerms != nil {
					te.Key = make([]int, len(e.KeyTerms))
					for i, kt := range e.KeyTerms {
						te.Key[i] = int(w.model.Eval(kt))
					}
				}
				tp = append(tp, te)
			}
			w.doneTapes = append(w.doneTapes, tp)
		}
	}
	total := int64(0)
	for _, v := range w.paths {
		total += v
	}
	if w.cfg.MaxPaths > 0 && total >= w.cfg.MaxPaths {
		w.sh.mu.Lock()
		w.sh.res.TimedOut = true
		w.sh.stop = true
		w.sh.cond.Broadcast()
		w.sh.mu.Unlock()
	}
}

// model access -----------------------------------------------------------

func (w *Worker) ensureModel() bool {
	if w.modelOK {
		return true
	}
	r := w.solver.Check(w.model)
	if r == Sat {
		w.modelOK = true
		return true
	}
	if r == Unsat {
		panic(pathEnd{PathInfeasible, "path condition unsatisfiable"})
	}
	panic(pathEnd{PathUnknown, "solver returned unknown on path condition"})
}

// decideBool is called for every branch on a (possibly) symbolic condition.
func (in *Interp) decideBool(c *Term) bool {
	if c.op == OConst {
		return c.val != 0
	}
	w := in.w
	if in.concrete != nil {
		return in.concrete.model.Eval(c) != 0
	}
	ts := in.ts
	// a condition implied by the literals already decided on this path needs
	// no solver call (and no event): three-valued evaluation over known atoms
	if v, ok := in.evalKnown(c, 0); ok {
		return v
	}
	base, neg := c, false
	if c.op == OBNot {
		base, neg = c.a, true
	}
	if w.pos < len(w.events) {
		ev := &w.events[w.pos]
		if ev.kind != evBranch {
			panic(engineError{fmt.Sprintf("replay divergence at event %d: expected branch, have kind %d", w.pos, ev.kind)})
		}
		if w.pos >= w.synced {
			ev.lvl = w.solver.levels
			w.solver.Push()
			if ev.taken {
				w.solver.Assert(c)
			} else {
				w.solver.Assert(ts.Not(c))
			}
			w.synced = w.pos + 1
		}
		w.pos++
		in.learn(base, ev.taken != neg)
		return ev.taken
	}
	// new decision
	w.ensureModel()
	side := w.model.Eval(c) != 0
	var lit, other *Term
	if side {
		lit, other = c, ts.Not(c)
	} else {
		lit, other = ts.Not(c), c
	}
	ev := Event{kind: evBranch, taken: side, lvl: w.solver.levels}
	w.solver.Push()
	w.solver.Assert(other)
	m2 := NewModel()
	switch w.solver.Check(m2) {
	case Sat:
		ev.otherOK = true
		ev.otherModel = m2
	case Unknown:
		// keep the side (sound for PASS: explores more), no model
		ev.otherOK = true
		w.inconcl = append(w.inconcl, "UNKNOWN: branch feasibility query at "+in.where())
	}
	w.solver.Pop(1)
	w.solver.Push()
	w.solver.Assert(lit)
	w.events = append(w.events, ev)
	w.pos++
	w.synced = w.pos
	in.learn(base, side != neg)
	return side
}

// concretize forks the path over the feasible values of t.
func (in *Interp) concretize(t *Term, why string) *Term {
	if t.op == OConst {
		return t
	}
	w := in.w
	ts := in.ts
	if in.concrete != nil {
		return ts.Const(t.w, in.concrete.model.Eval(t))
	}
	if w.pos < len(w.events) {
		ev := &w.events[w.pos]
		if ev.kind != evValue {
			panic(engineError{fmt.Sprintf("replay divergence at event %d: expected value", w.pos)})
		}
		if ev.lvl == -1 {
			// needs a fresh value different from ev.tried
			ev.lvl = w.solver.levels
			w.solver.Push()
			for _, v := range ev.tried {
				w.solver.Assert(ts.Not(ts.Cmp(OEq, t, ts.Const(t.w, v))))
			}
			r := w.solver.Check(w.model)
			if r != Sat {
				w.synced = w.pos + 1
				w.pos++
				if r == Unknown {
					panic(pathEnd{PathUnknown, "unknown while enumerating values for " + why})
				}
				panic(pathEnd{PathExhausted, why})
			}
			w.modelOK = true
			ev.val = w.model.Eval(t)
			w.solver.Assert(ts.Cmp(OEq, t, ts.Const(t.w, ev.val)))
			w.synced = w.pos + 1
			ev.hasMore = in.probeMore(t, ev)
			w.pos++
			return ts.Const(t.w, ev.val)
		}
		if w.pos >= w.synced {
			ev.lvl = w.solver.levels
			w.solver.Push()
			w.solver.Assert(ts.Cmp(OEq, t, ts.Const(t.w, ev.val)))
			w.synced = w.pos + 1
		}
		w.pos++
		return ts.Const(t.w, ev.val)
	}
	w.ensureModel()
	v := w.model.Eval(t)
	ev := Event{kind: evValue, val: v, lvl: w.solver.levels}
	w.solver.Push()
	w.solver.Assert(ts.Cmp(OEq, t, ts.Const(t.w, v)))
	w.events = append(w.events, ev)
	w.synced = len(w.events)
	w.events[w.pos].hasMore = in.probeMore(t, &w.events[w.pos])
	w.pos++
	return ts.Const(t.w, v)
}

// probeMore asks whether t can take a value outside tried ∪ {val}; the
// current level (t == val) is temporarily replaced.
func (in *Interp) probeMore(t *Term, ev *Event) bool {
	w := in.w
	ts := in.ts
	w.solver.Pop(1)
	w.solver.Push()
	for _, v := range ev.tried {
		w.solver.Assert(ts.Not(ts.Cmp(OEq, t, ts.Const(t.w, v))))
	}
	w.solver.Assert(ts.Not(ts.Cmp(OEq, t, ts.Const(t.w, ev.val))))
	r := w.solver.Check(nil)
	w.solver.Pop(1)
	w.solver.Push()
	w.solver.Assert(ts.Cmp(OEq, t, ts.Const(t.w, ev.val)))
	return r != Unsat
}

func (in *Interp) concretizeStr(s *SymStr) string {
	b := make([]byte, len(s.b))
	for i, t := range s.b {
		b[i] = byte(in.concretize(t, "string byte").val)
	}
	return string(b)
}

// choose is a solver-free n-way decision (vpChoose, scheduling).
func (in *Interp) choose(n int, what string) int {
	if n <= 1 {
		return 0
	}
	w := in.w
	if in.concrete != nil {
		return in.concrete.nextChoice(n)
	}
	if w.pos < len(w.events) {
		ev := &w.events[w.pos]
		if ev.kind != evChoice {
			panic(engineError{fmt.Sprintf("replay divergence at event %d: expected choice", w.pos)})
		}
		if w.pos >= w.synced {
			ev.lvl = w.solver.levels
			w.solver.Push() // every decision owns a level, so later facts are popped with it
			w.synced = w.pos + 1
		}
		w.pos++
		return ev.choice
	}
	first := 0
	nn := n
	if len(forceChoices) > 0 {
		k := 0
		for _, ev := range w.events {
			if ev.kind == evChoice {
				k++
			}
		}
		if k < len(forceChoices) {
			first = forceChoices[k]
			nn = first + 1
		}
	}
	w.events = append(w.events, Event{kind: evChoice, choice: first, n: nn, lvl: w.solver.levels})
	w.solver.Push()
	w.pos++
	w.synced = w.pos
	return first
}

// assume adds a fact to the path condition.
func (in *Interp) assume(c *Term, why string) {
	if c.IsTrue() {
		return
	}
	w := in.w
	if in.concrete != nil {
		if in.concrete.model.Eval(c) == 0 {
			panic(pathEnd{PathInfeasible, "assumption false in concrete replay: " + why})
		}
		return
	}
	if c.IsFalse() {
		panic(pathEnd{PathInfeasible, why})
	}
	if v, ok := in.evalKnown(c, 0); ok && v {
		return // already implied: no event (deterministic: known is a function of the path)
	}
	in.learn(c, true)
	if w.pos < len(w.events) {
		ev := &w.events[w.pos]
		if ev.kind != evFact {
			panic(engineError{fmt.Sprintf("replay divergence at event %d: expected fact", w.pos)})
		}
		if w.pos >= w.synced {
			ev.lvl = w.solver.levels
			w.solver.Assert(c)
			w.synced = w.pos + 1
		}
		w.pos++
		return
	}
	ev := Event{kind: evFact, lvl: w.solver.levels}
	w.solver.Assert(c)
	w.events = append(w.events, ev)
	w.pos++
	w.synced = w.pos
	if w.modelOK && w.model.Eval(c) == 0 {
		w.modelOK = false
		r := w.solver.Check(w.model)
		switch r {
		case Sat:
			w.modelOK = true
		case Unsat:
			panic(pathEnd{PathInfeasible, why})
		default:
			panic(pathEnd{PathUnknown, "unknown after assumption: " + why})
		}
	}
}

// check decides an assertion: pc ∧ ¬c sat -> violation.
func (in *Interp) check(c *Term, id string) {
	in.asserts[id]++
	w := in.w
	if in.concrete != nil {
		if in.concrete.model.Eval(c) == 0 {
			panic(pathEnd{PathViolation, "assert:" + id})
		}
		return
	}
	if c.IsTrue() {
		w.proved[id]++
		return
	}
	if v, ok := in.evalKnown(c, 0); ok && v {
		w.proved[id]++
		return
	}
	defer func() {
		if r := recover(); r == nil {
			in.learn(c, true)
		} else {
			panic(r)
		}
	}()
	if w.pos < len(w.events) {
		// already decided on a previous execution of this prefix: proved
		ev := &w.events[w.pos]
		if ev.kind != evFact {
			panic(engineError{fmt.Sprintf("replay divergence at event %d: expected fact(check)", w.pos)})
		}
		if w.pos >= w.synced {
			ev.lvl = w.solver.levels
			w.solver.Assert(c)
			w.synced = w.pos + 1
		}
		w.pos++
		w.proved[id]++
		return
	}
	ts := in.ts
	w.solver.Push()
	w.solver.Assert(ts.Not(c))
	m := NewModel()
	r := w.solver.Check(m)
	w.solver.Pop(1)
	switch r {
	case Sat:
		in.reportViolation("assert", id, "assertion "+id+" can fail", m)
		panic(pathEnd{PathViolation, "assert:" + id})
	case Unknown:
		panic(pathEnd{PathUnknown, "unknown on assertion " + id})
	}
	w.proved[id]++
	// continue with c as a fact
	ev := Event{kind: evFact, lvl: w.solver.levels}
	w.solver.Assert(c)
	w.events = append(w.events, ev)
	w.pos++
	w.synced = w.pos
}

func (in *Interp) freshVar(width uint8, kind string) *Term {
	idx := in.nvars
	in.nvars++
	var name string
	if width == 0 {
		name = fmt.Sprintf("b%d", idx)
	} else {
		name = fmt.Sprintf("n%d_%d", idx, width)
	}
	t := in.ts.Var(width, idx<<8|int(width), name)
	if in.concrete != nil {
		c := in.concrete
		var v uint64
		if c.vi < len(c.vars) {
			v = c.vars[c.vi]
		}
		c.vi++
		c.model.vals[t.id] = v
	}
	return t
}

func (in *Interp) where() string {
	return "?"
}

func (in *Interp) reportViolation(kind, id, msg string, m *Model) {
	w := in.w
	v := Violation{Harness: w.cfg.Harness, Kind: kind, ID: id, Msg: msg}
	for _, e := range in.tape {
		te := e
		if e.Term != nil {
			if m != nil {
				te.Val = m.Eval(e.Term)
			}
		}
		if e.KeyTerms != nil && m != nil {
			te.Key = make([]int, len(e.KeyTerms))
			for i, kt := range e.KeyTerms {
				te.Key[i] = int(m.Eval(kt))
			}
		}
		v.Tape = append(v.Tape, te)
	}
	for _, ev := range w.events[:w.pos] {
		if ev.kind == evChoice {
			v.Choices = append(v.Choices, ev.choice)
		}
	}
	key := kind + ":" + id
	sh := w.sh
	sh.mu.Lock()
	defer sh.mu.Unlock()
	n := 0
	for _, x := range sh.res.Violations {
		if x.Kind+":"+x.ID == key {
			n++
		}
	}
	if n < w.cfg.MaxViol {
		sh.res.Violations = append(sh.res.Violations, v)
	}
}

func (in *Interp) sample() map[string]interface{} {
	s := map[string]interface{}{}
	w := in.w
	if w.modelOK || w.ensureModelQuiet() {
		vals := []uint64{}
		for _, e := range in.tape {
			if e.Term != nil {
				vals = append(vals, w.model.Eval(e.Term))
			} else {
				vals = append(vals, e.Val)
			}
			if len(vals) >= 48 {
				break
			}
		}
		s["tape_model"] = vals
	}
	s["decisions"] = len(w.events)
	ids := []string{}
	for k := range in.asserts {
		ids = append(ids, k)
	}
	sort.Strings(ids)
	s["assertions_reached"] = ids
	s["steps"] = in.steps
	return s
}

func (w *Worker) ensureModelQuiet() (ok bool) {
	defer func() {
		if r := recover(); r != nil {
			ok = false
		}
	}()
	return w.ensureModel()
}


// learn records that t has truth value v on this path and propagates through
// the boolean structure.
func (in *Interp) learn(t *Term, v bool) {
	if t.op == OConst {
		return
	}
	if _, ok := in.known[t]; ok {
		return
	}
	in.known[t] = v
	switch t.op {
	case OBNot:
		in.learn(t.a, !v)
	case OBAnd:
		if v {
			in.learn(t.a, true)
			in.learn(t.b, true)
		} else {
			if av, ok := in.evalKnown(t.a, 0); ok && av {
				in.learn(t.b, false)
			} else if bv, ok := in.evalKnown(t.b, 0); ok && bv {
				in.learn(t.a, false)
			}
		}
	case OBOr:
		if !v {
			in.learn(t.a, false)
			in.learn(t.b, false)
		} else {
			if av, ok := in.evalKnown(t.a, 0); ok && !av {
				in.learn(t.b, true)
			} else if bv, ok := in.evalKnown(t.b, 0); ok && !bv {
				in.learn(t.a, true)
			}
		}
	}
}

// evalKnown evaluates a boolean term under the known literals (three-valued).
func (in *Interp) evalKnown(t *Term, depth int) (bool, bool) {
	if t.op == OConst {
		return t.val != 0, true
	}
	if v, ok := in.known[t]; ok {
		return v, true
	}
	if depth > 24 || t.w != 0 {
		return false, false
	}
	switch t.op {
	case OBNot:
		v, ok := in.evalKnown(t.a, depth+1)
		return !v, ok
	case OBAnd:
		av, aok := in.evalKnown(t.a, depth+1)
		if aok && !av {
			return false, true
		}
		bv, bok := in.evalKnown(t.b, depth+1)
		if bok && !bv {
			return false, true
		}
		if aok && bok {
			return true, true
		}
	case OBOr:
		av, aok := in.evalKnown(t.a, depth+1)
		if aok && av {
			return true, true
		}
		bv, bok := in.evalKnown(t.b, depth+1)
		if bok && bv {
			return true, true
		}
		if aok && bok {
			return false, true
		}
	case OIte:
		cv, cok := in.evalKnown(t.a, depth+1)
		if cok {
			if cv {
				return in.evalKnown(t.b, depth+1)
			}
			return in.evalKnown(t.c, depth+1)
		}
		bv, bok := in.evalKnown(t.b, depth+1)
		cv2, cok2 := in.evalKnown(t.c, depth+1)
		if bok && cok2 && bv == cv2 {
			return bv, true
		}
	case OEq:
		if t.a.w == 0 {
			av, aok := in.evalKnown(t.a, depth+1)
			bv, bok := in.evalKnown(t.b, depth+1)
			if aok && bok {
				return av == bv, true
			}
		}
	}
	return false, false
}
