package main

import (
	"fmt"
	"go/token"
	"go/types"
	"math"

	"golang.org/x/tools/go/ssa"
)

func (in *Interp) unop(fr *frame, instr *ssa.UnOp, x Value) Value {
	switch instr.Op {
	case token.MUL: // load
		return in.load(x, instr.Pos())
	case token.ARROW:
		v, ok := in.chanRecv(x.(*ChanV), instr.Pos())
		if v == nil {
			v = in.zero(instr.X.Type().Underlying().(*types.Chan).Elem())
		}
		if instr.CommaOk {
			return Tuple{v, in.ts.Bool(ok)}
		}
		return v
	case token.SUB:
		switch x := x.(type) {
		case *Term:
			return in.ts.Neg(x)
		case FloatV:
			return -x
		}
	case token.NOT:
		return in.ts.Not(x.(*Term))
	case token.XOR:
		return in.ts.BvNot(x.(*Term))
	}
	panic(unsupported(fmt.Sprintf("unop %s on %T", instr.Op, x)))
}

func (in *Interp) binop(op token.Token, t types.Type, x, y Value, pos token.Pos) Value {
	switch op {
	case token.EQL:
		return in.equals(x, y)
	case token.NEQ:
		return in.ts.Not(in.equals(x, y))
	}
	switch xv := x.(type) {
	case *Term:
		yv := y.(*Term)
		ts := in.ts
		_, signed, _ := intInfo(t)
		switch op {
		case token.ADD:
			return ts.Bin(OAdd, xv, yv)
		case token.SUB:
			return ts.Bin(OSub, xv, yv)
		case token.MUL:
			return ts.Bin(OMul, xv, yv)
		case token.QUO, token.REM:
			if yv.op == OConst {
				if yv.val == 0 {
					panic(in.rtPanic("integer divide by zero", pos))
				}
			} else if !in.decideBool(ts.Not(ts.Cmp(OEq, yv, ts.Const(yv.w, 0)))) {
				panic(in.rtPanic("integer divide by zero", pos))
			}
			var o Op
			switch {
			case op == token.QUO && signed:
				o = OSDiv
			case op == token.QUO:
				o = OUDiv
			case signed:
				o = OSRem
			default:
				o = OURem
			}
			return in.divrem(o, xv, yv)
		case token.AND:
			return ts.Bin(OAnd, xv, yv)
		case token.OR:
			return ts.Bin(OOr, xv, yv)
		case token.XOR:
			return ts.Bin(OXor, xv, yv)
		case token.AND_NOT:
			return ts.Bin(OAnd, xv, ts.BvNot(yv))
		case token.SHL, token.SHR:
			// shift count: unsigned (or checked non-negative); widen/narrow to x's width
			cnt := yv
			if cnt.w != xv.w {
				if cnt.w > xv.w {
					// count >= 2^w_x certainly >= width: saturate
					hiPart := ts.Extract(cnt, cnt.w-1, xv.w)
					lowPart := ts.Extract(cnt, xv.w-1, 0)
					big := ts.Not(ts.Cmp(OEq, hiPart, ts.Const(hiPart.w, 0)))
					cnt = ts.Ite(big, ts.Const(xv.w, uint64(xv.w)), lowPart)
				} else {
					cnt = ts.ZExt(cnt, xv.w)
				}
			}
			if op == token.SHL {
				return ts.Bin(OShl, xv, cnt)
			}
			if signed {
				return ts.Bin(OAShr, xv, cnt)
			}
			return ts.Bin(OLShr, xv, cnt)
		case token.LSS:
			if signed {
				return ts.Cmp(OSLt, xv, yv)
			}
			return ts.Cmp(OULt, xv, yv)
		case token.LEQ:
			if signed {
				return ts.Cmp(OSLe, xv, yv)
			}
			return ts.Cmp(OULe, xv, yv)
		case token.GTR:
			if signed {
				return ts.Cmp(OSLt, yv, xv)
			}
			return ts.Cmp(OULt, yv, xv)
		case token.GEQ:
			if signed {
				return ts.Cmp(OSLe, yv, xv)
			}
			return ts.Cmp(OULe, yv, xv)
		}
	case FloatV:
		yv := y.(FloatV)
		switch op {
		case token.ADD:
			return xv + yv
		case token.SUB:
			return xv - yv
		case token.MUL:
			return xv * yv
		case token.QUO:
			return xv / yv
		case token.LSS:
			return in.ts.Bool(xv < yv)
		case token.LEQ:
			return in.ts.Bool(xv <= yv)
		case token.GTR:
			return in.ts.Bool(xv > yv)
		case token.GEQ:
			return in.ts.Bool(xv >= yv)
		}
	case string, *SymStr:
		switch op {
		case token.ADD:
			return in.mkStr(append(append([]*Term(nil), in.strBytes(x)...), in.strBytes(y)...))
		case token.LSS, token.LEQ, token.GTR, token.GEQ:
			c := in.cmpBytes(in.strBytes(x), in.strBytes(y))
			z := in.ts.Const(64, 0)
			switch op {
			case token.LSS:
				return in.ts.Cmp(OSLt, c, z)
			case token.LEQ:
				return in.ts.Cmp(OSLe, c, z)
			case token.GTR:
				return in.ts.Cmp(OSLt, z, c)
			default:
				return in.ts.Cmp(OSLe, z, c)
			}
		}
	}
	panic(unsupported(fmt.Sprintf("binop %s on %T,%T", op, x, y)))
}

// divrem applies the opaque-operation abstraction to division/remainder by a
// non-power-of-two when the dividend is symbolic (DESIGN §2.5): the result is
// a fresh variable memoised on the hash-consed operands plus range facts.
func (in *Interp) divrem(o Op, x, y *Term) *Term {
	ts := in.ts
	if x.op == OConst && y.op == OConst {
		return ts.Bin(o, x, y)
	}
	if !in.w.cfg.OpaqueDiv || (o != OURem && o != OUDiv) || y.op != OConst || y.val&(y.val-1) == 0 {
		if y.op == OConst && y.val&(y.val-1) == 0 && (o == OURem || o == OUDiv) {
			// power of two: mask / shift
			k := uint64(0)
			for (uint64(1) << k) < y.val {
				k++
			}
			if o == OURem {
				return ts.Bin(OAnd, x, ts.Const(x.w, y.val-1))
			}
			return ts.Bin(OLShr, x, ts.Const(x.w, k))
		}
		return ts.Bin(o, x, y)
	}
	key := fmt.Sprintf("%d:%d:%d", o, x.id, y.id)
	if v, ok := in.opaque[key]; ok {
		return v
	}
	v := in.freshVar(x.w, "op")
	in.opaque[key] = v
	if o == OURem {
		in.varBound[v.id] = y.val - 1
		in.assume(ts.Cmp(OULt, v, y), "opaque urem range")
	} else {
		in.assume(ts.Cmp(OULe, v, x), "opaque udiv range")
	}
	in.w.usedOpaque = true
	return v
}

func (in *Interp) cmpBytes(a, b []*Term) *Term {
	// three-way lexicographic compare: nested ite, -1/0/1 as 64-bit
	ts := in.ts
	n := len(a)
	if len(b) < n {
		n = len(b)
	}
	var res *Term
	switch {
	case len(a) < len(b):
		res = ts.Const(64, ^uint64(0))
	case len(a) > len(b):
		res = ts.Const(64, 1)
	default:
		res = ts.Const(64, 0)
	}
	for i := n - 1; i >= 0; i-- {
		lt := ts.Cmp(OULt, a[i], b[i])
		eq := ts.Cmp(OEq, a[i], b[i])
		res = ts.Ite(eq, res, ts.Ite(lt, ts.Const(64, ^uint64(0)), ts.Const(64, 1)))
	}
	return res
}

func (in *Interp) eqBytes(a, b []*Term) *Term {
	if len(a) != len(b) {
		return in.ts.tFalse
	}
	r := in.ts.tTrue
	for i := range a {
		r = in.ts.And(r, in.ts.Cmp(OEq, a[i], b[i]))
	}
	return r
}

func isNilV(v Value) (isNil bool, known bool) {
	switch v := v.(type) {
	case nil:
		return true, true
	case *Value:
		return v == nil, true
	case Slice:
		return v == nil, true
	case *MapV:
		return v == nil, true
	case *ChanV:
		return v == nil, true
	case *ssa.Function:
		return v == nil, true
	case *Closure:
		return v == nil, true
	case Iface:
		return v.t == nil, true
	case *SymPtr:
		return false, true
	}
	return false, false
}

func (in *Interp) equals(x, y Value) *Term {
	ts := in.ts
	switch xv := x.(type) {
	case *Term:
		return ts.Cmp(OEq, xv, y.(*Term))
	case FloatV:
		return ts.Bool(xv == y.(FloatV))
	case string:
		if ys, ok := y.(string); ok {
			return ts.Bool(xv == ys)
		}
		return in.eqBytes(in.strBytes(x), in.strBytes(y))
	case *SymStr:
		return in.eqBytes(in.strBytes(x), in.strBytes(y))
	case *Value:
		if yp, ok := y.(*Value); ok {
			return ts.Bool(xv == yp)
		}
		return ts.tFalse
	case *ChanV:
		return ts.Bool(xv == y.(*ChanV))
	case Struct:
		yv := y.(Struct)
		r := ts.tTrue
		for i := range xv {
			r = ts.And(r, in.equals(xv[i], yv[i]))
		}
		return r
	case Array:
		yv := y.(Array)
		r := ts.tTrue
		for i := range xv {
			r = ts.And(r, in.equals(xv[i], yv[i]))
		}
		return r
	case Iface:
		yv, ok := y.(Iface)
		if !ok {
			panic(fmt.Sprintf("equals: iface vs %T", y))
		}
		if xv.t == nil || yv.t == nil {
			return ts.Bool(xv.t == nil && yv.t == nil)
		}
		if !types.Identical(xv.t, yv.t) {
			return ts.tFalse
		}
		return in.equals(xv.v, yv.v)
	}
	// slices, maps, funcs: only comparable to nil
	xn, okx := isNilV(x)
	yn, oky := isNilV(y)
	if okx && oky {
		if xn || yn {
			return ts.Bool(xn == yn)
		}
		// both non-nil funcs/closures etc: identity
		switch xv := x.(type) {
		case *ssa.Function:
			if yf, ok := y.(*ssa.Function); ok {
				return ts.Bool(xv == yf)
			}
			return ts.tFalse
		case *Closure:
			if yc, ok := y.(*Closure); ok {
				return ts.Bool(xv == yc)
			}
			return ts.tFalse
		case *SymPtr:
			panic(unsupported("comparison of symbolic pointers"))
		}
	}
	panic(unsupported(fmt.Sprintf("equals on %T,%T", x, y)))
}

func (in *Interp) conv(tDst, tSrc types.Type, x Value) Value {
	ut_dst := tDst.Underlying()
	ut_src := tSrc.Underlying()
	ts := in.ts

	// pointer / unsafe.Pointer conversions: identity on references
	switch ut_dst.(type) {
	case *types.Pointer:
		return x
	}
	if b, ok := ut_dst.(*types.Basic); ok && b.Kind() == types.UnsafePointer {
		if _, isTerm := x.(*Term); isTerm {
			panic(unsupported("uintptr -> unsafe.Pointer"))
		}
		return x
	}
	if b, ok := ut_src.(*types.Basic); ok && b.Kind() == types.UnsafePointer {
		if _, isInt, _ := intInfo(ut_dst); isInt || true {
			if _, _, ok := intInfo(ut_dst); ok {
				panic(unsupported("unsafe.Pointer -> uintptr"))
			}
		}
		return x
	}

	switch ut_src := ut_src.(type) {
	case *types.Slice:
		// []byte/[]rune -> string
		s := x.(Slice)
		if isString(ut_dst) {
			if eb, ok := ut_src.Elem().Underlying().(*types.Basic); ok && eb.Kind() == types.Uint8 {
				b := make([]*Term, len(s))
				for i, v := range s {
					b[i] = v.(*Term)
				}
				return in.mkStr(b)
			}
			panic(unsupported("[]rune -> string"))
		}
		return x
	case *types.Basic:
		if isString(ut_src) {
			if sl, ok := ut_dst.(*types.Slice); ok {
				if eb, ok := sl.Elem().Underlying().(*types.Basic); ok && eb.Kind() == types.Uint8 {
					b := in.strBytes(x)
					r := make(Slice, len(b))
					for i, t := range b {
						r[i] = t
					}
					return r
				}
				// []rune
				s, ok := x.(string)
				if !ok {
					panic(unsupported("symbolic string -> []rune"))
				}
				rs := []rune(s)
				r := make(Slice, len(rs))
				for i, c := range rs {
					r[i] = ts.Const(32, uint64(c))
				}
				return r
			}
			if isString(ut_dst) {
				return x
			}
		}
		if w, signed, ok := intInfo(ut_src); ok {
			xt := x.(*Term)
			if dw, _, ok := intInfo(ut_dst); ok {
				if dw == 0 || w == 0 {
					return xt
				}
				if dw <= w {
					return ts.Extract(xt, dw-1, 0)
				}
				if signed {
					return ts.SExt(xt, dw)
				}
				return ts.ZExt(xt, dw)
			}
			if isFloat(ut_dst) {
				if xt.op != OConst {
					panic(unsupported("symbolic int -> float"))
				}
				if signed {
					return FloatV(float64(sext(xt.val, xt.w)))
				}
				return FloatV(float64(xt.val))
			}
			if isString(ut_dst) {
				if xt.op != OConst {
					panic(unsupported("symbolic int -> string"))
				}
				return string(rune(sext(xt.val, xt.w)))
			}
		}
		if isFloat(ut_src) {
			f := float64(x.(FloatV))
			if dw, signed, ok := intInfo(ut_dst); ok {
				if signed {
					return ts.Const(dw, uint64(int64(f)))
				}
				return ts.Const(dw, uint64(f))
			}
			if isFloat(ut_dst) {
				if ut_dst.(*types.Basic).Kind() == types.Float32 {
					return FloatV(float64(float32(f)))
				}
				return x
			}
		}
	}
	switch ut_dst.(type) {
	case *types.Signature, *types.Map, *types.Chan, *types.Struct, *types.Array, *types.Interface, *types.Slice:
		return x
	}
	panic(unsupported(fmt.Sprintf("conversion %v -> %v", tSrc, tDst)))
}

// ---- range iterators ----

type iterator interface {
	next(in *Interp) Tuple
}

type mapIter struct {
	m    *MapV
	keys []string
	i    int
}

func (it *mapIter) next(in *Interp) Tuple {
	for it.i < len(it.keys) {
		k := it.keys[it.i]
		it.i++
		if e, ok := it.m.ent[k]; ok {
			return Tuple{in.ts.tTrue, e.k, copyVal(e.v)}
		}
	}
	return Tuple{in.ts.tFalse, nil, nil}
}

type strIter struct {
	s string
	i int
}

func (it *strIter) next(in *Interp) Tuple {
	if it.i >= len(it.s) {
		return Tuple{in.ts.tFalse, in.ts.Const(64, 0), in.ts.Const(32, 0)}
	}
	for j, r := range it.s[it.i:] {
		_ = j
		idx := it.i
		it.i += len(string(r))
		if r == 0xFFFD {
			it.i = idx + 1
		}
		return Tuple{in.ts.tTrue, in.ts.Const(64, uint64(idx)), in.ts.Const(32, uint64(r))}
	}
	return Tuple{in.ts.tFalse, in.ts.Const(64, 0), in.ts.Const(32, 0)}
}

func (in *Interp) rangeIter(x Value, t types.Type) iterator {
	switch x := x.(type) {
	case *MapV:
		if x == nil {
			return &mapIter{m: newMap()}
		}
		return &mapIter{m: x, keys: append([]string(nil), x.keys...)}
	case string:
		return &strIter{s: x}
	}
	panic(unsupported(fmt.Sprintf("range over %T", x)))
}

// ---- builtins ----

func (in *Interp) callBuiltin(caller *frame, pos token.Pos, fn *ssa.Builtin, args []Value) Value {
	ts := in.ts
	switch fn.Name() {
	case "append":
		if len(args) == 1 {
			return args[0]
		}
		var add []Value
		switch a1 := args[1].(type) {
		case Slice:
			add = a1
		case string, *SymStr:
			for _, t := range in.strBytes(a1) {
				add = append(add, t)
			}
		default:
			panic(fmt.Sprintf("append: %T", a1))
		}
		s := args[0].(Slice)
		if len(add) == 0 {
			return s
		}
		n := len(s) + len(add)
		if n <= cap(s) {
			r := s[:n]
			for i, v := range add {
				r[len(s)+i] = copyVal(v)
			}
			return r
		}
		// grow like the Go run time for small slices (double), min needed
		nc := 2 * cap(s)
		if nc < n {
			nc = n
		}
		if cap(s) == 0 && nc < 8 && isByteLike(add) {
			nc = 8
		}
		r := make(Slice, n, nc)
		copy(r, s)
		for i, v := range add {
			r[len(s)+i] = copyVal(v)
		}
		// fill spare capacity with zeros of the element kind
		if nc > n {
			var z Value
			if len(r) > 0 {
				z = in.zeroLike(r[0])
			}
			full := r[:nc]
			for i := n; i < nc; i++ {
				full[i] = copyVal(z)
			}
		}
		return r
	case "copy":
		dst := args[0].(Slice)
		var src []Value
		switch a1 := args[1].(type) {
		case Slice:
			src = a1
		case string, *SymStr:
			for _, t := range in.strBytes(a1) {
				src = append(src, t)
			}
		}
		n := len(dst)
		if len(src) < n {
			n = len(src)
		}
		// memmove semantics
		tmp := make([]Value, n)
		for i := 0; i < n; i++ {
			tmp[i] = copyVal(src[i])
		}
		copy(dst, tmp)
		return ts.Const(64, uint64(n))
	case "close":
		in.chanClose(args[0].(*ChanV), pos)
		return nil
	case "delete":
		m := args[0].(*MapV)
		m.del(in.keyString(args[1]))
		return nil
	case "print", "println":
		return nil
	case "len":
		switch x := args[0].(type) {
		case string, *SymStr:
			return ts.Const(64, uint64(strLen(x)))
		case Array:
			return ts.Const(64, uint64(len(x)))
		case *Value:
			return ts.Const(64, uint64(len((*x).(Array))))
		case Slice:
			return ts.Const(64, uint64(len(x)))
		case *MapV:
			return ts.Const(64, uint64(x.len()))
		case *ChanV:
			if x == nil {
				return ts.Const(64, 0)
			}
			return ts.Const(64, uint64(len(x.buf)))
		}
		panic(fmt.Sprintf("len: %T", args[0]))
	case "cap":
		switch x := args[0].(type) {
		case Array:
			return ts.Const(64, uint64(len(x)))
		case *Value:
			return ts.Const(64, uint64(len((*x).(Array))))
		case Slice:
			return ts.Const(64, uint64(cap(x)))
		case *ChanV:
			if x == nil {
				return ts.Const(64, 0)
			}
			return ts.Const(64, uint64(x.cap))
		}
		panic(fmt.Sprintf("cap: %T", args[0]))
	case "min", "max":
		r := args[0]
		for _, a := range args[1:] {
			rt, at := r.(*Term), a.(*Term)
			// signedness unknown here; ints in practice: use signed
			var c *Term
			if fn.Name() == "min" {
				c = ts.Cmp(OSLt, at, rt)
			} else {
				c = ts.Cmp(OSLt, rt, at)
			}
			r = ts.Ite(c, at, rt)
		}
		return r
	case "panic":
		panic(targetPanic{v: args[0], pos: pos})
	case "recover":
		return in.doRecover(caller)
	case "ssa:wrapnilchk":
		recv := args[0]
		if p, ok := recv.(*Value); ok && p == nil {
			panic(in.rtPanic("value method called using nil pointer", pos))
		}
		return recv
	case "clear":
		switch x := args[0].(type) {
		case *MapV:
			if x != nil {
				x.keys = nil
				x.ent = map[string]*mapEnt{}
			}
		case Slice:
			for i := range x {
				x[i] = in.zeroLike(x[i])
			}
		}
		return nil
	}
	panic(unsupported("builtin " + fn.Name()))
}

func isByteLike(vs []Value) bool {
	if len(vs) == 0 {
		return false
	}
	t, ok := vs[0].(*Term)
	return ok && t.w == 8
}

// zeroLike returns the zero value with the same shape as v.
func (in *Interp) zeroLike(v Value) Value {
	switch v := v.(type) {
	case *Term:
		return in.ts.Const(v.w, 0)
	case FloatV:
		return FloatV(0)
	case string, *SymStr:
		return ""
	case *Value:
		return (*Value)(nil)
	case *SymPtr:
		return (*Value)(nil)
	case Struct:
		r := make(Struct, len(v))
		for i := range v {
			r[i] = in.zeroLike(v[i])
		}
		return r
	case Array:
		r := make(Array, len(v))
		for i := range v {
			r[i] = in.zeroLike(v[i])
		}
		return r
	case Slice:
		return Slice(nil)
	case Iface:
		return Iface{}
	case *MapV:
		return (*MapV)(nil)
	case *ChanV:
		return (*ChanV)(nil)
	case *ssa.Function, *Closure:
		return (*ssa.Function)(nil)
	case nil:
		return nil
	}
	panic(fmt.Sprintf("zeroLike %T", v))
}

var _ = math.MaxInt64
