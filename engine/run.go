package main

import (
	"sort"
	"fmt"
	"go/token"
	"os"
	"runtime/debug"
	"strings"

	"golang.org/x/tools/go/ssa"
)

type concreteTape struct {
	vars    []uint64
	choices []uint64
	vi, ci  int
	model   *Model
}

func (c *concreteTape) nextChoice(n int) int {
	if c.ci >= len(c.choices) {
		return 0
	}
	v := int(c.choices[c.ci])
	c.ci++
	if v >= n {
		v = n - 1
	}
	return v
}

func newInterp(w *Worker) *Interp {
	in := &Interp{
		prog:     w.ld.prog,
		ld:       w.ld,
		ts:       w.ts,
		w:        w,
		globals:  map[*ssa.Global]*Value{},
		intr:     map[*ssa.Function]intrinsicFn{},
		maxStep:  w.cfg.MaxSteps,
		ghost:    map[string][]Value{},
		asserts:  map[string]int{},
		funcsHit: map[*ssa.Function]struct{}{},
		opaque:   map[string]*Term{},
		varBound: map[int32]uint64{},
		known:    map[*Term]bool{},
		swBudget: w.cfg.SwitchBudget,
	}
	if w.intrCache != nil {
		in.intr = w.intrCache
	} else {
		w.intrCache = in.intr
	}
	if w.cfg.Concrete != nil {
		c := *w.cfg.Concrete
		c.model = NewModel()
		in.concrete = &c
	}
	main := &Thread{id: 0, resume: make(chan struct{}), exited: make(chan struct{})}
	in.threads = []*Thread{main}
	in.cur = main
	return in
}

func (in *Interp) panicEnd(tp targetPanic) pathEnd {
	msg := tp.msg
	if msg == "" {
		msg = "panic: " + in.describe(tp.v)
	}
	return pathEnd{PathPanic, msg + " at " + in.posStr(tp.pos)}
}

// runHarnessOnce executes package initialisation and the harness function
// along the current event list.
func (in *Interp) runHarnessOnce(name string) (status PathStatus, msg string) {
	w := in.w
	spec := w.spec
	pkg := w.ld.pkgs[spec.Pkg]
	if pkg == nil {
		panic(engineError{"no package " + spec.Pkg})
	}
	fn := pkg.Func(name)
	if fn == nil {
		panic(engineError{"no harness function " + name + " in " + spec.Pkg})
	}
	in.timeNondet = spec.TimeND
	in.randNondet = spec.RandND
	in.chanOnly = spec.Sched == "chan"
	defer func() {
		r := recover()
		if r != nil {
			switch r := r.(type) {
			case pathEnd:
				status, msg = r.status, r.msg
			case targetPanic:
				pe := in.panicEnd(r)
				status, msg = pe.status, pe.msg
			case engineError:
				in.killThreads()
				panic(r)
			case annotated:
				status, msg = PathUnsupported, "engine panic: "+r.String()
			default:
				status, msg = PathUnsupported, fmt.Sprintf("engine panic: %v\n%s", r, debug.Stack())
			}
		}
		in.killThreads()
		if in.concrete != nil {
			return
		}
		switch status {
		case PathPanic:
			if !w.cfg.ExpectPanic {
				id := panicID(msg)
				if w.ensureModelQuiet() {
					in.reportViolation("panic", id, msg, w.model)
				} else {
					status = PathUnknown
				}
			}
		case PathDeadlock:
			if w.ensureModelQuiet() {
				in.reportViolation("deadlock", deadlockID(msg), msg, w.model)
			} else {
				status = PathUnknown
			}
		}
	}()
	if initFn := pkg.Func("init"); initFn != nil {
		in.call(nil, token.NoPos, initFn, nil)
	}
	in.initSteps = in.steps
	in.call(nil, token.NoPos, fn, nil)
	return PathDone, ""
}

// panicID makes a stable identifier for a panic site: message class + file
// (line numbers are dropped so unrelated edits do not change the key).
func panicID(msg string) string {
	at := strings.LastIndex(msg, " at ")
	where := ""
	if at >= 0 {
		where = msg[at+4:]
		msg = msg[:at]
		if c := strings.LastIndex(where, ":"); c >= 0 {
			where = where[:c]
		}
		if s := strings.LastIndex(where, "/"); s >= 0 {
			where = where[s+1:]
		}
	}
	// message class: everything before the first '[' (run-time errors carry
	// concrete indexes there) and at most 60 characters
	if b := strings.Index(msg, "["); b >= 0 {
		msg = msg[:b]
	}
	if len(msg) > 60 {
		msg = msg[:60]
	}
	clean := make([]rune, 0, len(msg))
	for _, r := range msg {
		if r >= '0' && r <= '9' {
			continue
		}
		clean = append(clean, r)
	}
	return strings.TrimSpace(string(clean)) + "@" + where
}

// deadlockID identifies a deadlock by where the target's threads are blocked
// (operation + file, line numbers dropped; harness files and vpJoin are left
// out), so that a known deadlock does not hide a different one.
func deadlockID(msg string) string {
	var sites []string
	for _, part := range strings.Split(msg, "[")[1:] {
		part = strings.TrimSuffix(strings.TrimSpace(part), "]")
		i := strings.Index(part, " blocked on ")
		j := strings.LastIndex(part, " at ")
		if i < 0 || j < i {
			continue
		}
		what, where := part[i+len(" blocked on "):j], part[j+4:]
		if c := strings.LastIndex(where, ":"); c >= 0 {
			where = where[:c]
		}
		if s := strings.LastIndex(where, "/"); s >= 0 {
			where = where[s+1:]
		}
		if what == "vpJoin" || strings.HasPrefix(where, "zz_h_") {
			continue
		}
		sites = append(sites, what+"@"+where)
	}
	sort.Strings(sites)
	return "deadlock " + strings.Join(sites, " ")
}

var _ = os.Stderr
