package main

// Symbolic interpreter for go/ssa. Structure follows x/tools/go/ssa/interp
// (values are Go data, pointers are Go pointers to cells) but scalars are SMT
// terms, branches on symbolic conditions are decisions of the explorer, and
// goroutines are cooperatively scheduled threads.

import (
	"fmt"
	"os"
	"runtime/debug"
	"go/constant"
	"go/token"
	"go/types"
	"strings"

	"golang.org/x/tools/go/ssa"
)

type PathStatus int

const (
	PathDone PathStatus = iota
	PathViolation
	PathPanic
	PathInfeasible
	PathUnsupported
	PathBudget
	PathDeadlock
	PathExhausted // a value decision had no further alternative
	PathUnknown   // solver gave up on a query that matters
)

func (s PathStatus) String() string {
	return [...]string{"DONE", "VIOLATION", "PANIC", "INFEASIBLE", "UNSUPPORTED", "BUDGET", "DEADLOCK", "EXHAUSTED", "UNKNOWN"}[s]
}

// pathEnd is the host panic that terminates the current path.
type pathEnd struct {
	status PathStatus
	msg    string
}

type threadKill struct{}

// targetPanic is a panic of the interpreted program.
type targetPanic struct {
	v   Value
	msg string // for run-time errors
	pos token.Pos
}

func unsupported(msg string) pathEnd { return pathEnd{PathUnsupported, msg} }

type deferred struct {
	fn   Value
	args []Value
	tail *deferred
}

type frame struct {
	in        *Interp
	th        *Thread
	caller    *frame
	fn        *ssa.Function
	block     *ssa.BasicBlock
	prevBlock *ssa.BasicBlock
	env       map[ssa.Value]Value
	locals    []Value
	defers    *deferred
	result    Value
	panicking bool
	panic     interface{}
	phitemps  []Value
	callPos   token.Pos
	cur       ssa.Instruction
}

type Interp struct {
	prog    *ssa.Program
	ld      *Loaded
	ts      *TermStore
	w       *Worker
	globals map[*ssa.Global]*Value
	intr    map[*ssa.Function]intrinsicFn
	steps   int64
	maxStep int64
	nvars   int
	// per-path records
	tape     []TapeEntry
	ghost    map[string][]Value
	asserts  map[string]int // assertion id -> times reached on this path
	funcsHit map[*ssa.Function]struct{}
	concrete *concreteTape // non-nil in concrete replay mode
	// threads
	threads []*Thread
	cur     *Thread
	ending  bool
	swBudget int
	interrupted *Thread // the thread an eager thread was scheduled in front of
	// misc models
	crcApps  []crcApp
	rankApps []rankApp
	opaque   map[string]*Term
	varBound map[int32]uint64
	known    map[*Term]bool
	errorStringT types.Type
	depth    int
	nchan    int
	endStatus *pathEnd
	timeNondet bool
	randNondet bool
	chanOnly   bool
	timeVal    *Term
	initSteps int64
}

type TapeEntry struct {
	Kind     string  `json:"k"` // "nondet","choose","rank","sched","crc","op",...
	W        uint8   `json:"w"` // width
	Term     *Term   `json:"-"` // symbolic value (nil for concrete choices)
	Val      uint64  `json:"v"`
	KeyTerms []*Term `json:"-"`             // rank: the argument bytes
	Key      []int   `json:"key,omitempty"` // rank: argument bytes under the model
}

func (fr *frame) get(key ssa.Value) Value {
	switch key := key.(type) {
	case nil:
		return nil
	case *ssa.Function, *ssa.Builtin:
		return key
	case *ssa.Const:
		return fr.in.constValue(key)
	case *ssa.Global:
		if r, ok := fr.in.globals[key]; ok {
			return r
		}
		// lazily create (packages whose init we skip)
		z := fr.in.zero(deref(key.Type()))
		if _, isIface := z.(Iface); isIface && types.Identical(deref(key.Type()), types.Universe.Lookup("error").Type()) {
			// error variable of a package whose init is not executed
			// (var ErrX = errors.New(...)): a distinct non-nil error object
			z = fr.in.mkError(key.Pkg.Pkg.Path() + "." + key.Name())
		}
		p := &z
		fr.in.globals[key] = p
		return p
	}
	if r, ok := fr.env[key]; ok {
		return r
	}
	panic(fmt.Sprintf("get: no value for %T: %v in %s", key, key.Name(), fr.fn))
}

func deref(t types.Type) types.Type {
	if p, ok := t.Underlying().(*types.Pointer); ok {
		return p.Elem()
	}
	panic(fmt.Sprintf("deref of non-pointer %v", t))
}

func (in *Interp) constValue(c *ssa.Const) Value {
	if c.Value == nil {
		return in.zero(c.Type())
	}
	t := c.Type()
	if b, ok := t.Underlying().(*types.Basic); ok {
		if w, signed, ok := intInfo(b); ok {
			if w == 0 {
				return in.ts.Bool(constant.BoolVal(c.Value))
			}
			if signed {
				return in.ts.Const(w, uint64(c.Int64()))
			}
			return in.ts.Const(w, c.Uint64())
		}
		switch {
		case b.Info()&types.IsFloat != 0:
			return FloatV(c.Float64())
		case b.Info()&types.IsString != 0:
			if c.Value.Kind() == constant.String {
				return constant.StringVal(c.Value)
			}
			return string(rune(c.Int64()))
		}
	}
	panic(unsupported(fmt.Sprintf("constValue: %s", c)))
}

func (in *Interp) step(fr *frame) {
	in.steps++
	if in.steps > in.maxStep {
		panic(pathEnd{PathBudget, fmt.Sprintf("instruction budget %d exhausted in %s", in.maxStep, fr.fn)})
	}
}

func (in *Interp) visitInstr(fr *frame, instr ssa.Instruction) (ret bool) {
	in.step(fr)
	switch instr := instr.(type) {
	case *ssa.DebugRef:
	case *ssa.UnOp:
		fr.env[instr] = in.unop(fr, instr, fr.get(instr.X))
	case *ssa.BinOp:
		fr.env[instr] = in.binop(instr.Op, instr.X.Type(), fr.get(instr.X), fr.get(instr.Y), instr.Pos())
	case *ssa.Call:
		fn, args := in.prepareCall(fr, &instr.Call)
		fr.env[instr] = in.call(fr, instr.Pos(), fn, args)
	case *ssa.ChangeInterface:
		fr.env[instr] = fr.get(instr.X)
	case *ssa.ChangeType:
		fr.env[instr] = fr.get(instr.X)
	case *ssa.Convert:
		fr.env[instr] = in.conv(instr.Type(), instr.X.Type(), fr.get(instr.X))
	case *ssa.MultiConvert:
		fr.env[instr] = in.conv(instr.Type(), instr.X.Type(), fr.get(instr.X))
	case *ssa.SliceToArrayPointer:
		s := fr.get(instr.X).(Slice)
		n := deref(instr.Type()).Underlying().(*types.Array).Len()
		if int64(len(s)) < n {
			panic(in.rtPanic(fmt.Sprintf("cannot convert slice with length %d to array or pointer to array with length %d", len(s), n), instr.Pos()))
		}
		if s == nil {
			fr.env[instr] = (*Value)(nil)
		} else {
			var v Value = Array(s[:n:n])
			fr.env[instr] = &v
		}
	case *ssa.MakeInterface:
		fr.env[instr] = Iface{t: instr.X.Type(), v: fr.get(instr.X)}
	case *ssa.Extract:
		fr.env[instr] = fr.get(instr.Tuple).(Tuple)[instr.Index]
	case *ssa.Slice:
		fr.env[instr] = in.slice(instr, fr.get(instr.X), fr.get(instr.Low), fr.get(instr.High), fr.get(instr.Max))
	case *ssa.Return:
		switch len(instr.Results) {
		case 0:
		case 1:
			fr.result = fr.get(instr.Results[0])
		default:
			res := make(Tuple, len(instr.Results))
			for i, r := range instr.Results {
				res[i] = fr.get(r)
			}
			fr.result = res
		}
		fr.block = nil
		return true
	case *ssa.RunDefers:
		fr.runDefers()
	case *ssa.Panic:
		panic(targetPanic{v: fr.get(instr.X), pos: instr.Pos()})
	case *ssa.Send:
		in.chanSend(fr.get(instr.Chan).(*ChanV), fr.get(instr.X), instr.Pos())
	case *ssa.Store:
		in.store(fr.get(instr.Addr), fr.get(instr.Val), instr.Pos())
	case *ssa.If:
		cond := fr.get(instr.Cond).(*Term)
		if cond.op != OConst && in.concrete == nil && os.Getenv("VERIF_NOMERGE") == "" && in.mergeChain(fr, instr, cond) {
			break
		}
		succ := 1
		if in.decideBool(cond) {
			succ = 0
		}
		fr.prevBlock, fr.block = fr.block, fr.block.Succs[succ]
	case *ssa.Jump:
		fr.prevBlock, fr.block = fr.block, fr.block.Succs[0]
	case *ssa.Defer:
		fn, args := in.prepareCall(fr, &instr.Call)
		defers := &fr.defers
		if instr.DeferStack != nil {
			if into := fr.get(instr.DeferStack); into != nil {
				panic(unsupported("defer with explicit DeferStack"))
			}
		}
		*defers = &deferred{fn: fn, args: args, tail: *defers}
	case *ssa.Go:
		fn, args := in.prepareCall(fr, &instr.Call)
		in.spawn(fn, args, instr.Pos())
	case *ssa.MakeChan:
		n := in.concInt(fr.get(instr.Size), "chan size")
		fr.env[instr] = in.newChan(int(n), instr.Type().Underlying().(*types.Chan).Elem())
	case *ssa.Alloc:
		var addr *Value
		if instr.Heap {
			addr = new(Value)
			fr.env[instr] = addr
		} else {
			addr = fr.env[instr].(*Value)
		}
		*addr = in.zero(deref(instr.Type()))
	case *ssa.MakeSlice:
		c := in.concInt(fr.get(instr.Cap), "make cap")
		l := in.concInt(fr.get(instr.Len), "make len")
		if l < 0 || c < l || c > 1<<24 {
			panic(in.rtPanic(fmt.Sprintf("makeslice: len %d cap %d out of range", l, c), instr.Pos()))
		}
		tElt := instr.Type().Underlying().(*types.Slice).Elem()
		s := make(Slice, c)
		z := in.zero(tElt)
		switch z.(type) {
		case Struct, Array:
			for i := range s {
				s[i] = copyVal(z)
			}
		default:
			for i := range s {
				s[i] = z
			}
		}
		fr.env[instr] = s[:l]
	case *ssa.MakeMap:
		fr.env[instr] = newMap()
	case *ssa.Range:
		fr.env[instr] = in.rangeIter(fr.get(instr.X), instr.X.Type())
	case *ssa.Next:
		fr.env[instr] = fr.get(instr.Iter).(iterator).next(in)
	case *ssa.FieldAddr:
		p, ok := fr.get(instr.X).(*Value)
		if !ok {
			panic(unsupported("FieldAddr through symbolic pointer"))
		}
		if p == nil {
			panic(in.rtPanic("invalid memory address or nil pointer dereference", instr.Pos()))
		}
		fr.env[instr] = &(*p).(Struct)[instr.Field]
	case *ssa.Field:
		fr.env[instr] = copyVal(fr.get(instr.X).(Struct)[instr.Field])
	case *ssa.IndexAddr:
		fr.env[instr] = in.indexAddr(fr, instr)
	case *ssa.Index:
		fr.env[instr] = in.index(fr, instr)
	case *ssa.Lookup:
		fr.env[instr] = in.lookup(instr, fr.get(instr.X), fr.get(instr.Index))
	case *ssa.MapUpdate:
		m := fr.get(instr.Map).(*MapV)
		if m == nil {
			panic(in.rtPanic("assignment to entry in nil map", instr.Pos()))
		}
		k := fr.get(instr.Key)
		m.set(in.keyString(k), k, copyVal(fr.get(instr.Value)))
	case *ssa.TypeAssert:
		fr.env[instr] = in.typeAssert(instr, fr.get(instr.X).(Iface))
	case *ssa.MakeClosure:
		bindings := make([]Value, len(instr.Bindings))
		for i, b := range instr.Bindings {
			bindings[i] = fr.get(b)
		}
		fr.env[instr] = &Closure{instr.Fn.(*ssa.Function), bindings}
	case *ssa.Select:
		fr.env[instr] = in.selectOp(fr, instr)
	default:
		panic(unsupported(fmt.Sprintf("instruction %T", instr)))
	}
	return false
}

func (in *Interp) rtPanic(msg string, pos token.Pos) targetPanic {
	return targetPanic{msg: "runtime error: " + msg, pos: pos}
}

func (in *Interp) posStr(pos token.Pos) string {
	if pos == token.NoPos {
		return "?"
	}
	p := in.prog.Fset.Position(pos)
	return fmt.Sprintf("%s:%d", p.Filename, p.Line)
}

func (in *Interp) indexAddr(fr *frame, instr *ssa.IndexAddr) Value {
	x := fr.get(instr.X)
	idx := in.toInt64Term(fr.get(instr.Index), instr.Index.Type())
	var base []Value
	switch x := x.(type) {
	case Slice:
		base = x
	case *Value:
		if x == nil {
			panic(in.rtPanic("invalid memory address or nil pointer dereference", instr.Pos()))
		}
		base = (*x).(Array)
	default:
		panic(unsupported(fmt.Sprintf("IndexAddr on %T", x)))
	}
	if idx.op == OConst {
		i := int64(idx.val)
		if i < 0 || i >= int64(len(base)) {
			panic(in.rtPanic(fmt.Sprintf("index out of range [%d] with length %d", i, len(base)), instr.Pos()))
		}
		return &base[i]
	}
	if in.ts.MaxU(idx, in.varBound, 0) >= uint64(len(base)) {
		inb := in.ts.Cmp(OULt, idx, in.ts.Const(64, uint64(len(base))))
		if !in.decideBool(inb) {
			panic(in.rtPanic(fmt.Sprintf("index out of range [symbolic] with length %d", len(base)), instr.Pos()))
		}
	}
	// symbolic index: scalars get a symbolic pointer, aggregates are concretised
	if len(base) > 0 {
		if _, ok := base[0].(*Term); ok {
			if mx := in.ts.MaxU(idx, in.varBound, 0); mx < uint64(len(base)) {
				base = base[:mx+1]
			}
			if len(base) <= in.w.cfg.MaxSymIndex {
				return &SymPtr{base: base, idx: idx}
			}
		}
	}
	c := in.concretize(idx, "index")
	return &base[c.val]
}

func (in *Interp) index(fr *frame, instr *ssa.Index) Value {
	x := fr.get(instr.X)
	idx := in.toInt64Term(fr.get(instr.Index), instr.Index.Type())
	switch x := x.(type) {
	case Array:
		return copyVal(in.loadIdx([]Value(x), idx, instr.Pos()))
	case string, *SymStr:
		b := in.strBytes(x)
		vs := make([]Value, len(b))
		for i, t := range b {
			vs[i] = t
		}
		return in.loadIdx(vs, idx, instr.Pos())
	}
	panic(unsupported(fmt.Sprintf("Index on %T", x)))
}

func (in *Interp) loadIdx(base []Value, idx *Term, pos token.Pos) Value {
	if idx.op == OConst {
		i := int64(idx.val)
		if i < 0 || i >= int64(len(base)) {
			panic(in.rtPanic(fmt.Sprintf("index out of range [%d] with length %d", i, len(base)), pos))
		}
		return base[i]
	}
	if in.ts.MaxU(idx, in.varBound, 0) >= uint64(len(base)) {
		inb := in.ts.Cmp(OULt, idx, in.ts.Const(64, uint64(len(base))))
		if !in.decideBool(inb) {
			panic(in.rtPanic(fmt.Sprintf("index out of range [symbolic] with length %d", len(base)), pos))
		}
	}
	if _, ok := base[0].(*Term); ok {
		if mx := in.ts.MaxU(idx, in.varBound, 0); mx < uint64(len(base)) {
			base = base[:mx+1]
		}
		if len(base) <= in.w.cfg.MaxSymIndex {
			return in.loadSym(&SymPtr{base, idx})
		}
	}
	c := in.concretize(idx, "index")
	return base[c.val]
}

func (in *Interp) loadSym(p *SymPtr) Value {
	n := len(p.base)
	res := p.base[n-1].(*Term)
	for i := n - 2; i >= 0; i-- {
		res = in.ts.Ite(in.ts.Cmp(OEq, p.idx, in.ts.Const(64, uint64(i))), p.base[i].(*Term), res)
	}
	return res
}

func (in *Interp) load(addr Value, pos token.Pos) Value {
	switch p := addr.(type) {
	case *Value:
		if p == nil {
			panic(in.rtPanic("invalid memory address or nil pointer dereference", pos))
		}
		return copyVal(*p)
	case *SymPtr:
		return in.loadSym(p)
	}
	panic(unsupported(fmt.Sprintf("load through %T", addr)))
}

func (in *Interp) store(addr Value, v Value, pos token.Pos) {
	switch p := addr.(type) {
	case *Value:
		if p == nil {
			panic(in.rtPanic("invalid memory address or nil pointer dereference", pos))
		}
		*p = copyVal(v)
	case *SymPtr:
		vt := v.(*Term)
		conds := make(map[*Term]uint64, len(p.base))
		cs := make([]*Term, len(p.base))
		for i := range p.base {
			cs[i] = in.ts.Cmp(OEq, p.idx, in.ts.Const(64, uint64(i)))
			conds[cs[i]] = uint64(i)
		}
		for i := range p.base {
			p.base[i] = in.ts.Ite(cs[i], in.ts.UnderEq(vt, conds, uint64(i), 0), p.base[i].(*Term))
		}
	default:
		panic(unsupported(fmt.Sprintf("store through %T", addr)))
	}
}

// toInt64Term widens an index value to 64 bits according to its Go type.
func (in *Interp) toInt64Term(v Value, t types.Type) *Term {
	x := v.(*Term)
	if x.w == 64 {
		return x
	}
	_, signed, _ := intInfo(t)
	if signed {
		return in.ts.SExt(x, 64)
	}
	return in.ts.ZExt(x, 64)
}

// concInt returns a concrete int64 for v, concretising through the solver if
// necessary (the path forks over the feasible values).
func (in *Interp) concInt(v Value, why string) int64 {
	if v == nil {
		return 0
	}
	t := v.(*Term)
	if t.op != OConst {
		t = in.concretize(t, why)
	}
	return sext(t.val, t.w)
}

func (in *Interp) slice(instr *ssa.Slice, x, lo, hi, max Value) Value {
	var l, h, m int64
	l = in.concInt(lo, "slice low")
	switch x := x.(type) {
	case string, *SymStr:
		b := in.strBytes(x)
		h = int64(len(b))
		if hi != nil {
			h = in.concInt(hi, "slice high")
		}
		if l < 0 || l > h || h > int64(len(b)) {
			panic(in.rtPanic(fmt.Sprintf("slice bounds out of range [%d:%d] with length %d", l, h, len(b)), instr.Pos()))
		}
		return in.mkStr(b[l:h])
	case Slice:
		h = int64(len(x))
		if hi != nil {
			h = in.concInt(hi, "slice high")
		}
		m = int64(cap(x))
		if max != nil {
			m = in.concInt(max, "slice max")
		}
		if l < 0 || l > h || h > m || m > int64(cap(x)) {
			panic(in.rtPanic(fmt.Sprintf("slice bounds out of range [%d:%d:%d] with capacity %d", l, h, m, cap(x)), instr.Pos()))
		}
		if x == nil {
			return Slice(nil)
		}
		return x[l:h:m]
	case *Value:
		if x == nil {
			panic(in.rtPanic("invalid memory address or nil pointer dereference", instr.Pos()))
		}
		a := (*x).(Array)
		h = int64(len(a))
		if hi != nil {
			h = in.concInt(hi, "slice high")
		}
		m = int64(len(a))
		if max != nil {
			m = in.concInt(max, "slice max")
		}
		if l < 0 || l > h || h > m || m > int64(len(a)) {
			panic(in.rtPanic(fmt.Sprintf("slice bounds out of range [%d:%d:%d] with capacity %d", l, h, m, len(a)), instr.Pos()))
		}
		return Slice(a)[l:h:m]
	}
	panic(unsupported(fmt.Sprintf("slice of %T", x)))
}

func (in *Interp) lookup(instr *ssa.Lookup, x, idx Value) Value {
	switch x := x.(type) {
	case *MapV:
		var v Value
		var ok bool
		if x != nil {
			v, ok = x.get(in.keyString(idx))
		}
		if ok {
			v = copyVal(v)
		} else {
			v = in.zero(instr.X.Type().Underlying().(*types.Map).Elem())
		}
		if instr.CommaOk {
			return Tuple{v, in.ts.Bool(ok)}
		}
		return v
	case string, *SymStr:
		b := in.strBytes(x)
		vs := make([]Value, len(b))
		for i, t := range b {
			vs[i] = t
		}
		return in.loadIdx(vs, in.toInt64Term(idx, instr.Index.Type()), instr.Pos())
	}
	panic(unsupported(fmt.Sprintf("lookup on %T", x)))
}

func (in *Interp) typeAssert(instr *ssa.TypeAssert, x Iface) Value {
	var v Value
	err := ""
	if x.t == nil {
		err = fmt.Sprintf("interface conversion: interface is nil, not %s", instr.AssertedType)
	} else if itype, ok := instr.AssertedType.Underlying().(*types.Interface); ok {
		v = x
		if meth, _ := types.MissingMethod(x.t, itype, true); meth != nil {
			err = fmt.Sprintf("interface conversion: %v is not %v: missing method %s", x.t, itype, meth.Name())
		}
	} else if types.Identical(x.t, instr.AssertedType) {
		v = copyVal(x.v)
	} else {
		err = fmt.Sprintf("interface conversion: interface is %s, not %s", x.t, instr.AssertedType)
	}
	if err != "" {
		if !instr.CommaOk {
			panic(in.rtPanic(err, instr.Pos()))
		}
		return Tuple{in.zero(instr.AssertedType), in.ts.tFalse}
	}
	if instr.CommaOk {
		return Tuple{v, in.ts.tTrue}
	}
	return v
}

func (in *Interp) prepareCall(fr *frame, call *ssa.CallCommon) (fn Value, args []Value) {
	v := fr.get(call.Value)
	if call.Method == nil {
		fn = v
	} else {
		recv := v.(Iface)
		if recv.t == nil {
			panic(in.rtPanic("invalid memory address or nil pointer dereference (method call on nil interface)", call.Pos()))
		}
		f := in.prog.LookupMethod(recv.t, call.Method.Pkg(), call.Method.Name())
		if f == nil {
			panic(fmt.Sprintf("method set for dynamic type %v does not contain %s", recv.t, call.Method))
		}
		fn = f
		args = append(args, recv.v)
	}
	for _, arg := range call.Args {
		args = append(args, fr.get(arg))
	}
	return
}

func (in *Interp) call(caller *frame, pos token.Pos, fn Value, args []Value) Value {
	switch fn := fn.(type) {
	case *ssa.Function:
		if fn == nil {
			panic(in.rtPanic("invalid memory address or nil pointer dereference (call of nil func)", pos))
		}
		return in.callSSA(caller, pos, fn, args, nil)
	case *Closure:
		return in.callSSA(caller, pos, fn.fn, args, fn.env)
	case *ssa.Builtin:
		return in.callBuiltin(caller, pos, fn, args)
	}
	panic(fmt.Sprintf("cannot call %T", fn))
}

func (in *Interp) callSSA(caller *frame, pos token.Pos, fn *ssa.Function, args []Value, env []Value) Value {
	if ifn, ok := in.intr[fn]; ok {
		if ifn != nil {
			return ifn(in, caller, pos, args)
		}
	} else {
		ifn := lookupIntrinsic(in, fn)
		in.intr[fn] = ifn
		if ifn != nil {
			return ifn(in, caller, pos, args)
		}
	}
	if fn.Blocks == nil {
		panic(unsupported("no code for function: " + fn.String()))
	}
	if fn.TypeParams().Len() > 0 && len(fn.TypeArgs()) == 0 {
		panic(unsupported("uninstantiated generic " + fn.String()))
	}
	in.depth++
	if in.depth > 400 {
		panic(pathEnd{PathBudget, "call depth > 400 in " + fn.String()})
	}
	defer func() { in.depth-- }()
	if in.funcsHit != nil {
		in.funcsHit[fn] = struct{}{}
	}
	fr := &frame{in: in, caller: caller, fn: fn, callPos: pos}
	if caller != nil {
		fr.th = caller.th
	} else {
		fr.th = in.cur
	}
	fr.env = make(map[ssa.Value]Value, 16)
	fr.block = fn.Blocks[0]
	fr.locals = make([]Value, len(fn.Locals))
	for i, l := range fn.Locals {
		fr.locals[i] = in.zero(deref(l.Type()))
		fr.env[l] = &fr.locals[i]
	}
	for i, p := range fn.Params {
		fr.env[p] = args[i]
	}
	for i, fv := range fn.FreeVars {
		fr.env[fv] = env[i]
	}
	for fr.block != nil {
		in.runFrame(fr)
	}
	return fr.result
}

func (in *Interp) runFrame(fr *frame) {
	defer func() {
		if fr.block == nil {
			return // normal return
		}
		r := recover()
		switch r.(type) {
		case pathEnd, threadKill, engineError:
			panic(r)
		case targetPanic:
		case annotated:
			panic(r)
		default:
			// interpreter bug: annotate with the target stack and propagate
			panic(annotated{r, in.targetStack(fr), string(debug.Stack())})
		}
		fr.panicking = true
		fr.panic = r
		fr.runDefers()
		fr.block = fr.fn.Recover
		if fr.block == nil {
			// recovered, no named results: return zero value
			fr.result = in.zero(fr.fn.Signature.Results())
			if fr.fn.Signature.Results().Len() == 0 {
				fr.result = nil
			}
		}
	}()
	for {
		nonPhis := in.executePhis(fr)
		for _, instr := range nonPhis {
			fr.cur = instr
			if in.visitInstr(fr, instr) {
				return
			}
		}
	}
}

type annotated struct {
	orig   interface{}
	tstack string
	hstack string
}

func (a annotated) String() string {
	return fmt.Sprintf("%v\ntarget stack:\n%s\nhost stack:\n%s", a.orig, a.tstack, a.hstack)
}

func (in *Interp) targetStack(fr *frame) string {
	var sb strings.Builder
	for f := fr; f != nil; f = f.caller {
		pos := ""
		if f.cur != nil {
			pos = in.posStr(f.cur.Pos()) + "  " + f.cur.String()
		}
		fmt.Fprintf(&sb, "  %s  [%s]\n", f.fn, pos)
	}
	return sb.String()
}

func (in *Interp) executePhis(fr *frame) []ssa.Instruction {
	firstNonPhi := -1
	for i, instr := range fr.block.Instrs {
		if _, ok := instr.(*ssa.Phi); !ok {
			firstNonPhi = i
			break
		}
	}
	nonPhis := fr.block.Instrs[firstNonPhi:]
	if firstNonPhi > 0 {
		phis := fr.block.Instrs[:firstNonPhi]
		predIndex := -1
		for i, p := range fr.block.Preds {
			if p == fr.prevBlock {
				predIndex = i
				break
			}
		}
		fr.phitemps = fr.phitemps[:0]
		for _, phi := range phis {
			fr.phitemps = append(fr.phitemps, fr.get(phi.(*ssa.Phi).Edges[predIndex]))
		}
		for i, phi := range phis {
			fr.env[phi.(*ssa.Phi)] = fr.phitemps[i]
		}
	}
	return nonPhis
}

func (fr *frame) runDefer(d *deferred) {
	var ok bool
	defer func() {
		if !ok {
			r := recover()
			switch r.(type) {
			case targetPanic:
				fr.panicking = true
				fr.panic = r
			default:
				panic(r)
			}
		}
	}()
	fr.in.call(fr, token.NoPos, d.fn, d.args)
	ok = true
}

func (fr *frame) runDefers() {
	for d := fr.defers; d != nil; d = d.tail {
		fr.runDefer(d)
	}
	fr.defers = nil
	if fr.panicking {
		panic(fr.panic)
	}
}

func (in *Interp) doRecover(caller *frame) Value {
	if caller != nil && !caller.panicking && caller.caller != nil && caller.caller.panicking {
		caller.caller.panicking = false
		p := caller.caller.panic
		caller.caller.panic = nil
		switch p := p.(type) {
		case targetPanic:
			if p.msg != "" {
				return in.mkRuntimeError(p.msg)
			}
			return p.v
		default:
			panic(fmt.Sprintf("unexpected panic type %T in recover()", p))
		}
	}
	return Iface{}
}

// mkRuntimeError builds an error value (runtime.errorString-like) for a
// run-time panic message.
func (in *Interp) mkRuntimeError(msg string) Value {
	return in.mkError(msg)
}

// mkError builds a value of type *errors.errorString.
func (in *Interp) mkError(msg string) Value {
	if in.errorStringT == nil {
		pkg := in.prog.ImportedPackage("errors")
		in.errorStringT = types.NewPointer(pkg.Type("errorString").Type())
	}
	var s Value = Struct{msg}
	return Iface{t: in.errorStringT, v: &s}
}

// describe renders a panic value for reports.
func (in *Interp) describe(v Value) string {
	switch v := v.(type) {
	case nil:
		return "nil"
	case Iface:
		if v.t == nil {
			return "nil"
		}
		if p, ok := v.v.(*Value); ok && p != nil {
			return fmt.Sprintf("%s{%s}", v.t, in.describe(*p))
		}
		return fmt.Sprintf("%s(%s)", v.t, in.describe(v.v))
	case string:
		return fmt.Sprintf("%q", v)
	case *Term:
		return v.String()
	case Struct:
		parts := []string{}
		for _, x := range v {
			parts = append(parts, in.describe(x))
		}
		return "{" + strings.Join(parts, ",") + "}"
	}
	return fmt.Sprintf("%T", v)
}


// mergeChain recognises short-circuit chains (a && b && c, a || b || c) whose
// later conditions are computed by pure instructions, and turns them into a
// single two-way decision on the conjunction instead of one fork per
// conjunct. Returns false (and changes nothing) if the shape does not match.
func (in *Interp) mergeChain(fr *frame, first *ssa.If, cond *Term) bool {
	b0 := fr.block
	for _, exitIdx := range []int{1, 0} { // 1: and-chain (exit = false edge); 0: or-chain
		exit := b0.Succs[exitIdx]
		next := b0.Succs[1-exitIdx]
		if exit == next {
			continue
		}
		// literal to continue along the chain
		lit := cond
		if exitIdx == 0 {
			lit = in.ts.Not(cond)
		}
		chain := []*ssa.BasicBlock{}
		cur := next
		acc := lit
		ok := true
		saved := map[ssa.Value]Value{}
		var defined []ssa.Value
		last := b0
		for steps := 0; steps < 6; steps++ {
			if len(cur.Preds) != 1 || cur == exit || len(cur.Instrs) == 0 {
				break
			}
			ifi, isIf := cur.Instrs[len(cur.Instrs)-1].(*ssa.If)
			if !isIf {
				break
			}
			var contIdx int
			switch {
			case cur.Succs[exitIdx] == exit:
				contIdx = 1 - exitIdx
			default:
				contIdx = -1
			}
			if contIdx < 0 {
				break
			}
			// all other instructions must be pure and total in the current state
			pure := true
			for _, ins := range cur.Instrs[:len(cur.Instrs)-1] {
				if !in.safePure(fr, ins) {
					pure = false
					break
				}
				if v, isV := ins.(ssa.Value); isV {
					if old, had := fr.env[v]; had {
						saved[v] = old
					}
					defined = append(defined, v)
				}
				in.visitInstr(fr, ins)
			}
			if !pure {
				break
			}
			c2 := fr.get(ifi.Cond).(*Term)
			l2 := c2
			if contIdx == 1 {
				l2 = in.ts.Not(c2)
			}
			acc = in.ts.And(acc, l2)
			chain = append(chain, cur)
			last = cur
			cur = cur.Succs[contIdx]
			if acc.IsFalse() {
				break
			}
		}
		if len(chain) == 0 {
			ok = false
		}
		// the exit block must see the same phi values from every chain edge
		if ok {
			for _, ins := range exit.Instrs {
				phi, isPhi := ins.(*ssa.Phi)
				if !isPhi {
					break
				}
				var ref ssa.Value
				have := false
				for pi, pred := range exit.Preds {
					if pred == b0 || containsBlock(chain, pred) {
						if !have {
							ref, have = phi.Edges[pi], true
						} else if phi.Edges[pi] != ref {
							// allow equal constants
							c1, ok1 := ref.(*ssa.Const)
							c2, ok2 := phi.Edges[pi].(*ssa.Const)
							if !(ok1 && ok2 && c1.Value == c2.Value && types.Identical(c1.Type(), c2.Type())) {
								ok = false
							}
						}
					}
				}
			}
		}
		if !ok {
			// undo speculative definitions
			for _, v := range defined {
				if old, had := saved[v]; had {
					fr.env[v] = old
				} else {
					delete(fr.env, v)
				}
			}
			continue
		}
		if in.decideBool(acc) {
			fr.prevBlock, fr.block = last, cur
		} else {
			fr.prevBlock, fr.block = b0, exit
		}
		return true
	}
	return false
}

func containsBlock(bs []*ssa.BasicBlock, b *ssa.BasicBlock) bool {
	for _, x := range bs {
		if x == b {
			return true
		}
	}
	return false
}

// safePure reports whether ins can be executed speculatively: no side
// effects, no decisions, cannot panic in the current state.
func (in *Interp) safePure(fr *frame, ins ssa.Instruction) bool {
	has := func(v ssa.Value) (Value, bool) {
		switch v.(type) {
		case *ssa.Const, *ssa.Function, *ssa.Global, *ssa.Builtin:
			return fr.get(v), true
		}
		x, ok := fr.env[v]
		return x, ok
	}
	switch ins := ins.(type) {
	case *ssa.DebugRef:
		return true
	case *ssa.BinOp:
		x, ok1 := has(ins.X)
		y, ok2 := has(ins.Y)
		if !ok1 || !ok2 {
			return false
		}
		if ins.Op == token.QUO || ins.Op == token.REM {
			t, isT := y.(*Term)
			return isT && t.op == OConst && t.val != 0
		}
		switch ins.Op {
		case token.EQL, token.NEQ:
			_, a := x.(*Term)
			_, b := y.(*Term)
			if a && b {
				return true
			}
			// nil checks of pointers/slices/interfaces are fine too
			switch x.(type) {
			case *Value, Slice, Iface, *MapV, *ChanV:
				return true
			}
			return false
		}
		_, a := x.(*Term)
		_, b := y.(*Term)
		return a && b
	case *ssa.UnOp:
		x, ok := has(ins.X)
		if !ok {
			return false
		}
		switch ins.Op {
		case token.NOT, token.SUB, token.XOR:
			_, isT := x.(*Term)
			return isT
		case token.MUL:
			p, isP := x.(*Value)
			return isP && p != nil
		}
		return false
	case *ssa.Convert:
		if _, ok := has(ins.X); !ok {
			return false
		}
		_, _, ok1 := intInfo(ins.X.Type())
		_, _, ok2 := intInfo(ins.Type())
		return ok1 && ok2
	case *ssa.ChangeType:
		_, ok := has(ins.X)
		return ok
	case *ssa.Extract:
		_, ok := has(ins.Tuple)
		return ok
	case *ssa.Field:
		_, ok := has(ins.X)
		return ok
	case *ssa.FieldAddr:
		x, ok := has(ins.X)
		if !ok {
			return false
		}
		p, isP := x.(*Value)
		return isP && p != nil
	case *ssa.IndexAddr:
		x, ok1 := has(ins.X)
		iv, ok2 := has(ins.Index)
		if !ok1 || !ok2 {
			return false
		}
		it, isT := iv.(*Term)
		if !isT || it.op != OConst {
			return false
		}
		n := -1
		switch x := x.(type) {
		case Slice:
			n = len(x)
		case *Value:
			if x != nil {
				if a, isA := (*x).(Array); isA {
					n = len(a)
				}
			}
		}
		return n >= 0 && sext(it.val, it.w) >= 0 && sext(it.val, it.w) < int64(n)
	case *ssa.Call:
		if b, isB := ins.Call.Value.(*ssa.Builtin); isB && (b.Name() == "len" || b.Name() == "cap") {
			_, ok := has(ins.Call.Args[0])
			return ok
		}
		return false
	}
	return false
}
