package main

import (
	"encoding/json"
	"flag"
	"fmt"
	"os"
	"path/filepath"
	"runtime"
	"sort"
	"strconv"
	"strings"
	"time"
)

func usage() {
	fmt.Fprintln(os.Stderr, `usage:
  symgo run   -suite S -harness F [-timeout 60s] [-workers N] [-v]
  symgo check <PROPERTY> [-tier quick|thorough]
  symgo replay <file.json>
  symgo selftest [-smoke]`)
	os.Exit(2)
}

func main() {
	if len(os.Args) < 2 {
		usage()
	}
	switch os.Args[1] {
	case "run":
		cmdRun(os.Args[2:])
	case "check":
		cmdCheck(os.Args[2:])
	case "replay":
		cmdReplay(os.Args[2:])
	case "selftest":
		cmdSelftest(os.Args[2:])
	default:
		usage()
	}
}

func defaultCfg(spec *HarnessSpec, tier string) *Config {
	cfg := &Config{
		Harness:      spec.Fn,
		Timeout:      time.Duration(spec.TimeoutS) * time.Second,
		QueryTimeout: 5000,
		MaxSteps:     spec.MaxSteps,
		MaxSymIndex:  4096,
		OpaqueDiv:    spec.Opaque,
		Workers:      runtime.NumCPU(),
		SolverKind:   "z3-new",
		MaxViol:      3,
		SwitchBudget: spec.Switches,
	}
	if cfg.Timeout == 0 {
		cfg.Timeout = 120 * time.Second
	}
	if tier == "thorough" {
		cfg.QueryTimeout = 60000
	}
	if cfg.MaxSteps == 0 {
		cfg.MaxSteps = 20_000_000
	}
	if w := os.Getenv("VERIF_WORKERS"); w != "" {
		if n, err := strconv.Atoi(w); err == nil && n > 0 {
			cfg.Workers = n
		}
	}
	return cfg
}

func cmdRun(args []string) {
	fs := flag.NewFlagSet("run", flag.ExitOnError)
	suite := fs.String("suite", "", "suite name")
	harness := fs.String("harness", "", "harness function")
	timeout := fs.Duration("timeout", 0, "wall budget")
	workers := fs.Int("workers", 0, "workers")
	verbose := fs.Bool("v", false, "verbose")
	solver := fs.String("solver", "z3-new", "z3|z3-new|cvc5")
	maxPaths := fs.Int64("maxpaths", 0, "stop after N paths")
	replay := fs.Bool("replay", true, "natively replay witnesses")
	switches := fs.Int("switches", -1, "override the harness's preemptive-switch budget")
	fs.Parse(args)
	s, err := readSuite(*suite)
	if err != nil {
		fatal(err)
	}
	ld, err := loadSuite(s)
	if err != nil {
		fatal(err)
	}
	fmt.Fprintf(os.Stderr, "loaded %s in %v\n", s.Name, ld.loadTime)
	var spec *HarnessSpec
	for i := range s.Harnesses {
		if s.Harnesses[i].Fn == *harness {
			spec = &s.Harnesses[i]
		}
	}
	if spec == nil {
		fatal(fmt.Errorf("harness %s not in suite", *harness))
	}
	cfg := defaultCfg(spec, "quick")
	if *timeout > 0 {
		cfg.Timeout = *timeout
	}
	if *workers > 0 {
		cfg.Workers = *workers
	}
	cfg.Verbose = *verbose
	cfg.SolverKind = *solver
	cfg.MaxPaths = *maxPaths
	if *switches >= 0 {
		cfg.SwitchBudget = *switches
	}
	res := runHarnessSpec(ld, spec, cfg)
	printResult(res)
	if *replay {
		for i := range res.Violations {
			v := &res.Violations[i]
			if spec.NoNative {
				continue
			}
			ok, out, err := nativeReplay(s, spec, v)
			fmt.Printf("native replay of %s/%s: reproduced=%v err=%v\n", v.Kind, v.ID, ok, err)
			if !ok || *verbose {
				fmt.Println(tail(out, 30))
			}
		}
	}
}

func tail(s string, n int) string {
	lines := strings.Split(strings.TrimRight(s, "\n"), "\n")
	if len(lines) > n {
		lines = lines[len(lines)-n:]
	}
	return strings.Join(lines, "\n")
}

func runHarnessSpec(ld *Loaded, spec *HarnessSpec, cfg *Config) *HarnessResult {
	cfg.spec = spec
	return runHarness(ld, cfg)
}

func printResult(r *HarnessResult) {
	total := int64(0)
	parts := []string{}
	for st := PathDone; st <= PathUnknown; st++ {
		if n := r.Paths[st]; n > 0 {
			parts = append(parts, fmt.Sprintf("%s=%d", st, n))
			total += n
		}
	}
	fmt.Printf("%s: paths=%d (%s) steps=%d queries=%d sat=%d unsat=%d unknown=%d solver=%.1fs wall=%.1fs depth=%d timedout=%v\n",
		r.Harness, total, strings.Join(parts, " "), r.Steps, r.Queries, r.Sat, r.Unsat, r.UnknownQ, r.SolverTime.Seconds(), r.Wall.Seconds(), r.MaxDepth, r.TimedOut)
	ids := []string{}
	for k := range r.AssertReach {
		ids = append(ids, k)
	}
	sort.Strings(ids)
	for _, k := range ids {
		fmt.Printf("  assert %-28s reached=%d proved=%d\n", k, r.AssertReach[k], r.AssertProved[k])
	}
	for _, v := range r.Violations {
		vals := []string{}
		for _, e := range v.Tape {
			if e.Kind == "nondet" || e.Kind == "choose" || e.Kind == "rank" {
				vals = append(vals, fmt.Sprintf("%s:%d", e.Kind[:1], e.Val))
			}
		}
		fmt.Printf("  VIOLATION-CANDIDATE %s %s: %s\n    tape=%s\n", v.Kind, v.ID, v.Msg, strings.Join(vals, " "))
	}
	seen := map[string]int{}
	for _, m := range r.Inconclusive {
		if len(m) > 3000 {
			m = m[:3000]
		}
		seen[m]++
	}
	for m, n := range seen {
		fmt.Printf("  INCONCLUSIVE x%d %s\n", n, m)
	}
}

func fatal(err error) {
	fmt.Fprintln(os.Stderr, "symgo:", err)
	os.Exit(2)
}

// ---- check: the registered entry point ----

type KnownFinding struct {
	Property string `json:"property"`
	Harness  string `json:"harness"`
	Kind     string `json:"kind"`
	ID       string `json:"id"`
	Status   string `json:"status"` // known | fixed
	Commit   string `json:"commit,omitempty"`
	What     string `json:"what"`
}

func loadKnown() []KnownFinding {
	b, err := os.ReadFile(filepath.Join(verifDir(), "known-findings.json"))
	if err != nil {
		return nil
	}
	var k []KnownFinding
	if err := json.Unmarshal(b, &k); err != nil {
		fatal(fmt.Errorf("known-findings.json: %v", err))
	}
	return k
}

func allSuites() []*Suite {
	files, _ := filepath.Glob(filepath.Join(verifDir(), "harness", "*.json"))
	sort.Strings(files)
	var out []*Suite
	for _, f := range files {
		name := strings.TrimSuffix(filepath.Base(f), ".json")
		s, err := readSuite(name)
		if err != nil {
			fatal(err)
		}
		out = append(out, s)
	}
	return out
}

func cmdCheck(args []string) {
	if len(args) < 1 {
		usage()
	}
	prop := args[0]
	fs := flag.NewFlagSet("check", flag.ExitOnError)
	tier := fs.String("tier", "", "quick|thorough")
	only := fs.String("only", "", "run only this harness")
	fs.Parse(args[1:])
	if *tier == "" {
		*tier = os.Getenv("VERIF_TIER")
	}
	if *tier == "" {
		*tier = "quick"
	}
	seed := 0
	if s := os.Getenv("VERIF_SEED"); s != "" {
		seed, _ = strconv.Atoi(s)
	}
	t0 := time.Now()
	known := loadKnown()
	ev := newEvidence(prop, *tier, seed)
	exit := 0
	nrun := 0
	for _, s := range allSuites() {
		var specs []*HarnessSpec
		for i := range s.Harnesses {
			h := &s.Harnesses[i]
			if h.Property != prop {
				continue
			}
			if *only != "" && h.Fn != *only {
				continue
			}
			if h.Tier == "thorough" && *tier != "thorough" {
				continue
			}
			if h.Tier == "quick-only" && *tier != "quick" {
				continue
			}
			specs = append(specs, h)
		}
		if len(specs) == 0 {
			continue
		}
		ld, err := loadSuite(s)
		if err != nil {
			fmt.Printf("INCONCLUSIVE property=%s suite=%s: %v\n", prop, s.Name, err)
			ev.addNote("load failure in suite " + s.Name + ": " + err.Error())
			exit = max(exit, 3)
			continue
		}
		ev.addSuite(s, ld)
		for _, spec := range specs {
			nrun++
			cfg := defaultCfg(spec, *tier)
			if spec.Witness {
				cfg.MaxPaths = 64 // a reachability twin only has to reach its assert(false)
			}
			res := runHarnessSpec(ld, spec, cfg)
			printResult(res)
			code := judge(prop, s, spec, res, known, ev)
			exit = max(exit, code)
		}
	}
	if nrun == 0 {
		fmt.Printf("INCONCLUSIVE property=%s: no harness registered\n", prop)
		exit = 3
	}
	ev.finish(time.Since(t0), exit)
	if err := ev.write(); err != nil {
		fatal(err)
	}
	switch exit {
	case 0:
		fmt.Printf("PASS property=%s tier=%s harnesses=%d wall=%.1fs\n", prop, *tier, nrun, time.Since(t0).Seconds())
	case 1:
		fmt.Printf("FAIL property=%s\n", prop)
	default:
		fmt.Printf("INCONCLUSIVE property=%s (exit %d)\n", prop, exit)
	}
	os.Exit(exit)
}

// judge classifies one harness result; returns 0 (pass), 1 (violation), 3 (inconclusive).
func judge(prop string, s *Suite, spec *HarnessSpec, res *HarnessResult, known []KnownFinding, ev *Evidence) int {
	code := 0
	inconclusive := func(msg string) {
		fmt.Printf("INCONCLUSIVE property=%s harness=%s: %s\n", prop, spec.Fn, msg)
		ev.addNote(spec.Fn + ": " + msg)
		if code < 3 && code != 1 {
			code = 3
		}
	}
	if spec.Witness {
		// reachability twin: its final assert(false) must be violated
		if len(res.Violations) == 0 {
			inconclusive("reachability witness did not reach its assert(false): harness is vacuous")
		}
		ev.addHarness(spec, res, nil, nil)
		return code
	}
	var confirmed, knownHits []string
	for i := range res.Violations {
		v := &res.Violations[i]
		reproduced := false
		out := ""
		if spec.NoNative {
			ok, o := concreteReplay(ev.loaded[s.Name], spec, v)
			reproduced, out = ok, o
		} else {
			ok, o, err := nativeReplay(s, spec, v)
			if err != nil {
				o += "\n" + err.Error()
			}
			reproduced, out = ok, o
		}
		if !reproduced {
			fmt.Printf("ENGINE-DISAGREEMENT property=%s harness=%s %s/%s did not reproduce natively\n%s\n", prop, spec.Fn, v.Kind, v.ID, tail(out, 15))
			inconclusive("witness did not replay (encoding or stub wrong) for " + v.Kind + "/" + v.ID)
			continue
		}
		ev.replayed++
		// known finding?
		isKnown := false
		for _, k := range known {
			if k.Status == "known" && k.Property == prop && k.Harness == spec.Fn && k.Kind == v.Kind && k.ID == v.ID {
				isKnown = true
				line := fmt.Sprintf("KNOWN-FINDING: property=%s %s", prop, k.What)
				dup := false
				for _, h := range knownHits {
					if h == line {
						dup = true
					}
				}
				if !dup {
					knownHits = append(knownHits, line)
					fmt.Println(line)
				}
			}
		}
		if isKnown {
			continue
		}
		path := writeReplay(prop, s, spec, v)
		fmt.Printf("VIOLATION property=%s replay=%s\n", prop, path)
		fmt.Printf("  harness=%s %s/%s: %s\n", spec.Fn, v.Kind, v.ID, v.Msg)
		confirmed = append(confirmed, v.Kind+"/"+v.ID)
		code = 1
	}
	// translator validation: completed symbolic paths are replayed natively
	// and must complete there too (same assumptions hold, no assertion fails)
	if !spec.NoNative && len(confirmed) == 0 {
		nrep := 1
		if ev.tier == "thorough" {
			nrep = 3
		}
		for i, tp := range res.DoneTapes {
			if i >= nrep {
				break
			}
			pv := &Violation{Harness: spec.Fn, Kind: "pass", Tape: tp}
			ok, out, err := nativeReplay(s, spec, pv)
			if err != nil || !ok {
				fmt.Printf("ENGINE-DISAGREEMENT property=%s harness=%s a completed symbolic path does not complete natively\n%s\n", prop, spec.Fn, tail(out, 25))
				inconclusive("a completed symbolic path did not complete natively (engine or harness disagrees with the compiled code)")
			} else {
				ev.replayed++
				ev.passReplayed++
			}
		}
	}
	if res.TimedOut {
		inconclusive(fmt.Sprintf("wall budget exhausted after %d paths (bound not completed)", totalPaths(res)))
	}
	for _, st := range []PathStatus{PathUnsupported, PathBudget, PathUnknown} {
		if n := res.Paths[st]; n > 0 {
			msg := ""
			for _, m := range res.Inconclusive {
				if strings.HasPrefix(m, st.String()) {
					msg = m
					break
				}
			}
			if len(msg) > 400 {
				msg = msg[:400]
			}
			inconclusive(fmt.Sprintf("%d paths ended %s (%s)", n, st, msg))
		}
	}
	if res.UnknownQ > 0 && res.Paths[PathUnknown] == 0 {
		// unknown feasibility answers were treated as feasible (sound), note it
		ev.addNote(fmt.Sprintf("%s: %d solver answers 'unknown' on branch feasibility were treated as feasible", spec.Fn, res.UnknownQ))
	}
	if len(res.AssertReach) == 0 && len(res.Violations) == 0 && !spec.NoAssertOK() {
		inconclusive("no assertion was reached on any path (vacuous)")
	}
	if res.Paths[PathDone] == 0 && len(res.Violations) == 0 {
		inconclusive("no path completed (vacuous)")
	}
	ev.addHarness(spec, res, confirmed, knownHits)
	return code
}

func (h *HarnessSpec) NoAssertOK() bool { return strings.Contains(h.Note, "panic-freedom only") }

func totalPaths(r *HarnessResult) int64 {
	n := int64(0)
	for _, v := range r.Paths {
		n += v
	}
	return n
}

func writeReplay(prop string, s *Suite, spec *HarnessSpec, v *Violation) string {
	dir := filepath.Join(verifDir(), "replays")
	os.MkdirAll(dir, 0o755)
	rf := ReplayFile{Property: prop, Suite: s.Name, Harness: spec.Fn, Pkg: spec.Pkg, Kind: v.Kind, ID: v.ID, Msg: v.Msg, Tape: v.Tape, Native: !spec.NoNative}
	name := fmt.Sprintf("%s-%s-%s.json", prop, spec.Fn, sanitize(v.Kind+"-"+v.ID))
	p := filepath.Join(dir, name)
	b, _ := json.MarshalIndent(rf, "", " ")
	os.WriteFile(p, b, 0o644)
	return p
}

func sanitize(s string) string {
	r := []rune{}
	for _, c := range s {
		if c >= 'a' && c <= 'z' || c >= 'A' && c <= 'Z' || c >= '0' && c <= '9' || c == '-' || c == '_' {
			r = append(r, c)
		} else {
			r = append(r, '_')
		}
	}
	if len(r) > 60 {
		r = r[:60]
	}
	return string(r)
}

func cmdReplay(args []string) {
	if len(args) < 1 {
		usage()
	}
	b, err := os.ReadFile(args[0])
	if err != nil {
		fatal(err)
	}
	var rf ReplayFile
	if err := json.Unmarshal(b, &rf); err != nil {
		fatal(err)
	}
	s, err := readSuite(rf.Suite)
	if err != nil {
		fatal(err)
	}
	var spec *HarnessSpec
	for i := range s.Harnesses {
		if s.Harnesses[i].Fn == rf.Harness {
			spec = &s.Harnesses[i]
		}
	}
	if spec == nil {
		fatal(fmt.Errorf("harness %s not found in suite %s", rf.Harness, rf.Suite))
	}
	v := &Violation{Harness: rf.Harness, Kind: rf.Kind, ID: rf.ID, Msg: rf.Msg, Tape: rf.Tape}
	var ok bool
	var out string
	if spec.NoNative {
		ld, err := loadSuite(s)
		if err != nil {
			fatal(err)
		}
		ok, out = concreteReplay(ld, spec, v)
	} else {
		ok, out, err = nativeReplay(s, spec, v)
		if err != nil {
			fatal(err)
		}
	}
	fmt.Println(tail(out, 40))
	if ok {
		fmt.Printf("VIOLATION property=%s replay=%s\n", rf.Property, args[0])
		os.Exit(1)
	}
	fmt.Println("replay: the violation does not reproduce on the current tree")
	os.Exit(0)
}

// concreteReplay re-executes the harness in the engine's concrete mode.
func concreteReplay(ld *Loaded, spec *HarnessSpec, v *Violation) (bool, string) {
	ct := &concreteTape{}
	for _, e := range v.Tape {
		switch e.Kind {
		case "choose", "sched":
			ct.choices = append(ct.choices, e.Val)
		default:
			ct.vars = append(ct.vars, e.Val)
		}
	}
	cfg := defaultCfg(spec, "quick")
	cfg.Workers = 1
	cfg.Concrete = ct
	cfg.spec = spec
	res := runHarness(ld, cfg)
	for st, n := range res.Paths {
		if n > 0 {
			switch {
			case v.Kind == "assert" && st == PathViolation:
				return true, "concrete replay: assertion failed again"
			case v.Kind == "panic" && st == PathPanic:
				return true, "concrete replay: panic again"
			case v.Kind == "deadlock" && st == PathDeadlock:
				return true, "concrete replay: deadlock again"
			}
			return false, fmt.Sprintf("concrete replay ended %s: %v", st, res.Inconclusive)
		}
	}
	return false, "concrete replay: no path"
}
