package main

import (
	"fmt"
	"go/types"
	"sort"
	"strings"

	"golang.org/x/tools/go/ssa"
)

// Value is the dynamic value of an SSA variable.
//
//	*Term                 bool and integer scalars (symbolic or constant)
//	FloatV                float32/64 (concrete only)
//	string / *SymStr      strings
//	*Value                pointer to a cell (nil pointer = (*Value)(nil))
//	*SymPtr               pointer to base[idx] with symbolic idx
//	Struct, Array, Tuple  aggregates (value semantics; copied by load/store)
//	Slice                 Go slice sharing its backing array
//	Iface                 interface value
//	*ssa.Function, *Closure, *ssa.Builtin, *BoundIntrinsic
//	*MapV, *ChanV
type Value interface{}

type FloatV float64
type Struct []Value
type Array []Value
type Tuple []Value
type Slice []Value

type SymStr struct{ b []*Term }

type SymPtr struct {
	base []Value
	idx  *Term // 64-bit
}

type Iface struct {
	t types.Type
	v Value
}

type Closure struct {
	fn  *ssa.Function
	env []Value
}

// MapV is an insertion-ordered map with concrete keys.
type MapV struct {
	keys []string
	ent  map[string]*mapEnt
}
type mapEnt struct {
	k, v Value
}

func newMap() *MapV { return &MapV{ent: map[string]*mapEnt{}} }

func (m *MapV) get(k string) (Value, bool) {
	if m == nil {
		return nil, false
	}
	e, ok := m.ent[k]
	if !ok {
		return nil, false
	}
	return e.v, true
}
func (m *MapV) set(ks string, k, v Value) {
	if e, ok := m.ent[ks]; ok {
		e.v = v
		return
	}
	m.ent[ks] = &mapEnt{k, v}
	m.keys = append(m.keys, ks)
}
func (m *MapV) del(ks string) {
	if m == nil {
		return
	}
	if _, ok := m.ent[ks]; !ok {
		return
	}
	delete(m.ent, ks)
	for i, k := range m.keys {
		if k == ks {
			m.keys = append(m.keys[:i:i], m.keys[i+1:]...)
			break
		}
	}
}
func (m *MapV) len() int {
	if m == nil {
		return 0
	}
	return len(m.keys)
}

type ChanV struct {
	id     int
	cap    int
	buf    []Value
	closed bool
	// waiting senders (unbuffered / full): thread + value
	sendq []*chanWaiter
	recvq []*chanWaiter
	elemT types.Type
}

type chanWaiter struct {
	th   *Thread
	val  Value // for senders
	done bool
	ok   bool
	sel  int // select case index, -1 if plain op
}

func under(t types.Type) types.Type { return t.Underlying() }

// intInfo returns width and signedness for integer/bool basic kinds.
func intInfo(t types.Type) (w uint8, signed bool, ok bool) {
	b, isB := under(t).(*types.Basic)
	if !isB {
		if _, isP := under(t).(*types.Pointer); isP {
			return 0, false, false
		}
		return 0, false, false
	}
	switch b.Kind() {
	case types.Bool, types.UntypedBool:
		return 0, false, true
	case types.Int, types.Int64, types.UntypedInt:
		return 64, true, true
	case types.Int8:
		return 8, true, true
	case types.Int16:
		return 16, true, true
	case types.Int32, types.UntypedRune:
		return 32, true, true
	case types.Uint, types.Uint64, types.Uintptr:
		return 64, false, true
	case types.Uint8:
		return 8, false, true
	case types.Uint16:
		return 16, false, true
	case types.Uint32:
		return 32, false, true
	}
	return 0, false, false
}

func isFloat(t types.Type) bool {
	b, ok := under(t).(*types.Basic)
	return ok && b.Info()&types.IsFloat != 0
}
func isString(t types.Type) bool {
	b, ok := under(t).(*types.Basic)
	return ok && b.Info()&types.IsString != 0
}

func (in *Interp) zero(t types.Type) Value {
	switch t := t.(type) {
	case *types.Basic:
		if t.Kind() == types.UnsafePointer {
			return (*Value)(nil)
		}
		if t.Kind() == types.UntypedNil {
			panic("untyped nil has no zero value")
		}
		if w, _, ok := intInfo(t); ok {
			return in.ts.Const(w, 0)
		}
		if t.Info()&types.IsFloat != 0 {
			return FloatV(0)
		}
		if t.Info()&types.IsString != 0 {
			return ""
		}
		panic(fmt.Sprintf("zero: basic %v", t))
	case *types.Pointer:
		return (*Value)(nil)
	case *types.Array:
		a := make(Array, t.Len())
		for i := range a {
			a[i] = in.zero(t.Elem())
		}
		return a
	case *types.Named, *types.Alias:
		return in.zero(t.Underlying())
	case *types.Interface:
		return Iface{}
	case *types.Slice:
		return Slice(nil)
	case *types.Struct:
		s := make(Struct, t.NumFields())
		for i := range s {
			s[i] = in.zero(t.Field(i).Type())
		}
		return s
	case *types.Tuple:
		if t.Len() == 1 {
			return in.zero(t.At(0).Type())
		}
		s := make(Tuple, t.Len())
		for i := range s {
			s[i] = in.zero(t.At(i).Type())
		}
		return s
	case *types.Chan:
		return (*ChanV)(nil)
	case *types.Map:
		return (*MapV)(nil)
	case *types.Signature:
		return (*ssa.Function)(nil)
	}
	panic(fmt.Sprintf("zero: unexpected type %T %v", t, t))
}

// copyVal makes an unaliased copy of aggregates (value semantics).
func copyVal(v Value) Value {
	switch v := v.(type) {
	case Struct:
		c := make(Struct, len(v))
		for i, x := range v {
			c[i] = copyVal(x)
		}
		return c
	case Array:
		c := make(Array, len(v))
		for i, x := range v {
			c[i] = copyVal(x)
		}
		return c
	}
	return v
}

// keyString gives a canonical string for a concrete map key / equality class.
func (in *Interp) keyString(v Value) string {
	switch v := v.(type) {
	case *Term:
		if v.op != OConst {
			v = in.concretize(v, "map key")
		}
		return fmt.Sprintf("i%d:%d", v.w, v.val)
	case string:
		return "s" + v
	case *SymStr:
		return "s" + in.concretizeStr(v)
	case FloatV:
		return fmt.Sprintf("f%v", float64(v))
	case *Value:
		return fmt.Sprintf("p%p", v)
	case *ChanV:
		return fmt.Sprintf("c%p", v)
	case Struct:
		var sb strings.Builder
		sb.WriteString("{")
		for _, x := range v {
			sb.WriteString(in.keyString(x))
			sb.WriteString(",")
		}
		sb.WriteString("}")
		return sb.String()
	case Array:
		var sb strings.Builder
		sb.WriteString("[")
		for _, x := range v {
			sb.WriteString(in.keyString(x))
			sb.WriteString(",")
		}
		sb.WriteString("]")
		return sb.String()
	case Iface:
		if v.t == nil {
			return "nil"
		}
		return "I" + v.t.String() + ":" + in.keyString(v.v)
	}
	panic(unsupported(fmt.Sprintf("map key of kind %T", v)))
}

func sortedKeys(m map[string]Value) []string {
	ks := make([]string, 0, len(m))
	for k := range m {
		ks = append(ks, k)
	}
	sort.Strings(ks)
	return ks
}

// strLen etc: helpers over string | *SymStr
func strLen(v Value) int {
	switch v := v.(type) {
	case string:
		return len(v)
	case *SymStr:
		return len(v.b)
	}
	panic(fmt.Sprintf("strLen %T", v))
}

func (in *Interp) strBytes(v Value) []*Term {
	switch v := v.(type) {
	case string:
		r := make([]*Term, len(v))
		for i := 0; i < len(v); i++ {
			r[i] = in.ts.Const(8, uint64(v[i]))
		}
		return r
	case *SymStr:
		return v.b
	}
	panic(fmt.Sprintf("strBytes %T", v))
}

func (in *Interp) mkStr(b []*Term) Value {
	all := true
	for _, t := range b {
		if t.op != OConst {
			all = false
			break
		}
	}
	if all {
		bs := make([]byte, len(b))
		for i, t := range b {
			bs[i] = byte(t.val)
		}
		return string(bs)
	}
	return &SymStr{b: append([]*Term(nil), b...)}
}
