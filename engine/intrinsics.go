package main

import (
	"fmt"
	"math"
	"go/token"
	"go/types"
	"strings"

	"golang.org/x/tools/go/ssa"
)

type intrinsicFn func(in *Interp, caller *frame, pos token.Pos, args []Value) Value

// lookupIntrinsic resolves the model for fn, or nil if fn is executed from SSA.
func lookupIntrinsic(in *Interp, fn *ssa.Function) intrinsicFn {
	name := fn.String()
	// harness entry points: any package, function name vp*
	if fn.Pkg != nil && fn.Signature.Recv() == nil && strings.HasPrefix(fn.Name(), "vp") && fn.Blocks == nil {
		if f, ok := vpIntrinsics[fn.Name()]; ok {
			return f
		}
		panic(engineError{"unknown harness primitive " + name})
	}
	if f, ok := stdIntrinsics[name]; ok {
		return f
	}
	// package inits outside the allow list are skipped
	if fn.Name() == "init" && fn.Signature.Recv() == nil && fn.Pkg != nil && fn.Synthetic != "" {
		if !in.ld.initAllowed(fn.Pkg.Pkg.Path()) {
			return func(*Interp, *frame, token.Pos, []Value) Value { return nil }
		}
	}
	if strings.HasPrefix(name, "fmt.") || strings.HasPrefix(name, "log.") {
		return intrOpaqueFmt(fn)
	}
	return nil
}

func (in *Interp) record(kind string, t *Term) {
	in.tape = append(in.tape, TapeEntry{Kind: kind, W: t.w, Term: t})
}

func nondet(w uint8) intrinsicFn {
	return func(in *Interp, _ *frame, _ token.Pos, _ []Value) Value {
		t := in.freshVar(w, "nd")
		in.record("nondet", t)
		return t
	}
}

func bytesOf(v Value) []*Term {
	s := v.(Slice)
	r := make([]*Term, len(s))
	for i, x := range s {
		r[i] = x.(*Term)
	}
	return r
}

var vpIntrinsics map[string]intrinsicFn
var stdIntrinsics map[string]intrinsicFn

func init() {
	vpIntrinsics = map[string]intrinsicFn{
		"vpNondetU8":   nondet(8),
		"vpNondetU16":  nondet(16),
		"vpNondetU32":  nondet(32),
		"vpNondetU64":  nondet(64),
		"vpNondetInt":  nondet(64),
		"vpNondetBool": nondet(0),
		"vpChoose": func(in *Interp, _ *frame, _ token.Pos, args []Value) Value {
			n := in.concInt(args[0], "vpChoose bound")
			c := in.choose(int(n), "vpChoose")
			in.tape = append(in.tape, TapeEntry{Kind: "choose", Val: uint64(c)})
			return in.ts.Const(64, uint64(c))
		},
		"vpAssume": func(in *Interp, _ *frame, _ token.Pos, args []Value) Value {
			in.assume(args[0].(*Term), "vpAssume")
			return nil
		},
		"vpAssert": func(in *Interp, _ *frame, pos token.Pos, args []Value) Value {
			id, ok := args[1].(string)
			if !ok {
				panic(engineError{"vpAssert id must be a constant string"})
			}
			in.check(args[0].(*Term), id)
			return nil
		},
		"vpAnd": func(in *Interp, _ *frame, _ token.Pos, args []Value) Value {
			return in.ts.And(args[0].(*Term), args[1].(*Term))
		},
		"vpOr": func(in *Interp, _ *frame, _ token.Pos, args []Value) Value {
			return in.ts.Or(args[0].(*Term), args[1].(*Term))
		},
		"vpImplies": func(in *Interp, _ *frame, _ token.Pos, args []Value) Value {
			return in.ts.Implies(args[0].(*Term), args[1].(*Term))
		},
		"vpIteInt": func(in *Interp, _ *frame, _ token.Pos, args []Value) Value {
			return in.ts.Ite(args[0].(*Term), args[1].(*Term), args[2].(*Term))
		},
		"vpIteU64": func(in *Interp, _ *frame, _ token.Pos, args []Value) Value {
			return in.ts.Ite(args[0].(*Term), args[1].(*Term), args[2].(*Term))
		},
		"vpIteU8": func(in *Interp, _ *frame, _ token.Pos, args []Value) Value {
			return in.ts.Ite(args[0].(*Term), args[1].(*Term), args[2].(*Term))
		},
		// vpEqBytes: no-fork equality of two byte slices
		"vpEqBytes": func(in *Interp, _ *frame, _ token.Pos, args []Value) Value {
			return in.eqBytes(bytesOf(args[0]), bytesOf(args[1]))
		},
		// vpHavoc replaces every cell of the slice by a fresh byte
		"vpHavoc": func(in *Interp, _ *frame, _ token.Pos, args []Value) Value {
			s := args[0].(Slice)
			for i := range s {
				t := in.freshVar(8, "hv")
				in.record("nondet", t)
				s[i] = t
			}
			return nil
		},
		// vpRank: injective uninterpreted rank of a byte string (symbolic comparer)
		"vpRank": func(in *Interp, _ *frame, _ token.Pos, args []Value) Value {
			return in.rank(bytesOf(args[0]))
		},
		// vpConcretize forces a concrete value (forks over feasible values)
		"vpConcretize": func(in *Interp, _ *frame, _ token.Pos, args []Value) Value {
			return in.concretize(args[0].(*Term), "vpConcretize")
		},
		"vpIsSymbolic": func(in *Interp, _ *frame, _ token.Pos, args []Value) Value {
			return in.ts.tTrue
		},
		"vpJoin": func(in *Interp, _ *frame, _ token.Pos, args []Value) Value {
			in.joinAll()
			return nil
		},
		"vpYield": func(in *Interp, _ *frame, _ token.Pos, args []Value) Value {
			in.schedPoint()
			return nil
		},
		// vpEager marks the calling thread as a partner goroutine that is run
		// as soon as it is runnable (no scheduling choice is spent on it)
		"vpEager": func(in *Interp, _ *frame, _ token.Pos, args []Value) Value {
			in.cur.eager = true
			return nil
		},
		// vpSettle: background work drains — every other thread runs until it
		// is blocked or done before the caller continues
		"vpSettle": func(in *Interp, _ *frame, pos token.Pos, args []Value) Value {
			cur := in.cur
			in.block(func() bool {
				for _, t := range in.threads {
					if t == cur || t.done {
						continue
					}
					if t.waiting == nil || t.waiting() {
						return false
					}
				}
				return true
			}, "vpSettle", pos)
			return nil
		},
		"vpSameBacking": func(in *Interp, _ *frame, _ token.Pos, args []Value) Value {
			a, b := args[0].(Slice), args[1].(Slice)
			return in.ts.Bool(overlaps(a, b))
		},
	}

	nop := func(in *Interp, _ *frame, _ token.Pos, _ []Value) Value { return nil }
	stdIntrinsics = map[string]intrinsicFn{
		"internal/bytealg.Compare": func(in *Interp, _ *frame, _ token.Pos, args []Value) Value {
			return in.cmpBytes(bytesOf(args[0]), bytesOf(args[1]))
		},
		"bytes.Compare": func(in *Interp, _ *frame, _ token.Pos, args []Value) Value {
			return in.cmpBytes(bytesOf(args[0]), bytesOf(args[1]))
		},
		"bytes.Equal": func(in *Interp, _ *frame, _ token.Pos, args []Value) Value {
			return in.eqBytes(bytesOf(args[0]), bytesOf(args[1]))
		},
		"internal/bytealg.IndexByte": func(in *Interp, _ *frame, _ token.Pos, args []Value) Value {
			b := bytesOf(args[0])
			c := args[1].(*Term)
			res := in.ts.Const(64, ^uint64(0))
			for i := len(b) - 1; i >= 0; i-- {
				res = in.ts.Ite(in.ts.Cmp(OEq, b[i], c), in.ts.Const(64, uint64(i)), res)
			}
			return res
		},
		"hash/crc32.MakeTable": func(in *Interp, _ *frame, _ token.Pos, args []Value) Value {
			return (*Value)(nil)
		},
		"hash/crc32.Update": func(in *Interp, _ *frame, _ token.Pos, args []Value) Value {
			return in.crc(args[0].(*Term), bytesOf(args[2]))
		},
		"hash/crc32.Checksum": func(in *Interp, _ *frame, _ token.Pos, args []Value) Value {
			return in.crc(in.ts.Const(32, 0), bytesOf(args[0]))
		},
		"runtime.SetFinalizer": nop,
		"runtime.Gosched":      func(in *Interp, _ *frame, _ token.Pos, _ []Value) Value { in.schedPoint(); return nil },
		"runtime.GC":           nop,
		"runtime.KeepAlive":    nop,
		"runtime.GOMAXPROCS":   func(in *Interp, _ *frame, _ token.Pos, _ []Value) Value { return in.ts.Const(64, 1) },
		"runtime.NumCPU":       func(in *Interp, _ *frame, _ token.Pos, _ []Value) Value { return in.ts.Const(64, 1) },

		// ---- sync ----
		"(*sync.Mutex).Lock": func(in *Interp, _ *frame, pos token.Pos, args []Value) Value {
			in.mutexLock(&(*args[0].(*Value)).(Struct)[0], pos)
			return nil
		},
		"(*sync.Mutex).TryLock": func(in *Interp, _ *frame, pos token.Pos, args []Value) Value {
			cell := &(*args[0].(*Value)).(Struct)[0]
			in.schedPoint()
			if (*cell).(*Term).val == 0 {
				*cell = in.ts.Const(32, 1)
				return in.ts.tTrue
			}
			return in.ts.tFalse
		},
		"(*sync.Mutex).Unlock": func(in *Interp, _ *frame, pos token.Pos, args []Value) Value {
			in.mutexUnlock(&(*args[0].(*Value)).(Struct)[0], pos)
			return nil
		},
		"(*sync.RWMutex).Lock": func(in *Interp, _ *frame, pos token.Pos, args []Value) Value {
			s := (*args[0].(*Value)).(Struct)
			in.rwLock(s, pos)
			return nil
		},
		"(*sync.RWMutex).Unlock": func(in *Interp, _ *frame, pos token.Pos, args []Value) Value {
			s := (*args[0].(*Value)).(Struct)
			in.mutexUnlock(&s[0].(Struct)[0], pos)
			return nil
		},
		"(*sync.RWMutex).RLock": func(in *Interp, _ *frame, pos token.Pos, args []Value) Value {
			s := (*args[0].(*Value)).(Struct)
			in.rwRLock(s, pos)
			return nil
		},
		"(*sync.RWMutex).RUnlock": func(in *Interp, _ *frame, pos token.Pos, args []Value) Value {
			s := (*args[0].(*Value)).(Struct)
			n := s[1].(*Term).val
			if n == 0 {
				panic(targetPanic{msg: "fatal error: sync: RUnlock of unlocked RWMutex", pos: pos})
			}
			s[1] = in.ts.Const(32, n-1)
			in.lockEvent("runlock", &s[0].(Struct)[0])
			in.schedPointSync()
			return nil
		},
		"(*sync.WaitGroup).Add": func(in *Interp, _ *frame, pos token.Pos, args []Value) Value {
			s := (*args[0].(*Value)).(Struct)
			d := in.concInt(args[1], "WaitGroup.Add")
			n := int64(int32(s[2].(*Term).val)) + d
			if n < 0 {
				panic(targetPanic{msg: "sync: negative WaitGroup counter", pos: pos})
			}
			s[2] = in.ts.Const(32, uint64(n))
			in.schedPoint()
			return nil
		},
		"(*sync.WaitGroup).Done": func(in *Interp, _ *frame, pos token.Pos, args []Value) Value {
			s := (*args[0].(*Value)).(Struct)
			n := int64(int32(s[2].(*Term).val)) - 1
			if n < 0 {
				panic(targetPanic{msg: "sync: negative WaitGroup counter", pos: pos})
			}
			s[2] = in.ts.Const(32, uint64(n))
			in.schedPoint()
			return nil
		},
		"(*sync.WaitGroup).Wait": func(in *Interp, _ *frame, pos token.Pos, args []Value) Value {
			s := (*args[0].(*Value)).(Struct)
			in.block(func() bool { return s[2].(*Term).val == 0 }, "WaitGroup.Wait", pos)
			return nil
		},
		"(*sync.Pool).Get": func(in *Interp, caller *frame, pos token.Pos, args []Value) Value {
			// adversarial but simple model: always a fresh object from New (or nil)
			s := (*args[0].(*Value)).(Struct)
			newFn := s[len(s)-1]
			if isNil, _ := isNilV(newFn); isNil {
				return Iface{}
			}
			return in.call(caller, pos, newFn, nil)
		},
		"(*sync.Pool).Put": nop,

		// ---- time ----
		"time.Now": func(in *Interp, _ *frame, _ token.Pos, _ []Value) Value {
			return Struct{in.ts.Const(64, 0), in.ts.Const(64, 0), (*Value)(nil)}
		},
		"time.Since": func(in *Interp, _ *frame, _ token.Pos, _ []Value) Value {
			if in.timeNondet {
				// one symbolic elapsed time per path: every deadline test on this
				// path sees the same "how long ago" (all expired / none expired /
				// any threshold in between, but not mixtures over time)
				if in.timeVal == nil {
					t := in.freshVar(64, "time")
					in.record("time", t)
					in.assume(in.ts.Cmp(OSLe, in.ts.Const(64, 0), t), "time.Since >= 0")
					in.timeVal = t
				}
				return in.timeVal
			}
			return in.ts.Const(64, 0)
		},
		"time.After": func(in *Interp, _ *frame, _ token.Pos, _ []Value) Value {
			// the timer fires: a channel that already holds the tick
			ch := in.newChan(1, nil)
			ch.buf = append(ch.buf, Struct{in.ts.Const(64, 0), in.ts.Const(64, 0), (*Value)(nil)})
			return ch
		},
		"time.NewTimer": func(in *Interp, _ *frame, _ token.Pos, _ []Value) Value {
			// a timer whose first tick is already pending; later ticks are not modelled
			ch := in.newChan(1, nil)
			ch.buf = append(ch.buf, Struct{in.ts.Const(64, 0), in.ts.Const(64, 0), (*Value)(nil)})
			var t Value = Struct{ch, in.ts.tFalse}
			return &t
		},
		"(*time.Timer).Reset": func(in *Interp, _ *frame, _ token.Pos, _ []Value) Value { return in.ts.tTrue },
		"(*time.Timer).Stop":  func(in *Interp, _ *frame, _ token.Pos, _ []Value) Value { return in.ts.tTrue },
		"time.Sleep": func(in *Interp, _ *frame, _ token.Pos, _ []Value) Value { in.schedPoint(); return nil },
		"(time.Time).Sub": func(in *Interp, _ *frame, _ token.Pos, _ []Value) Value {
			return in.ts.Const(64, 0)
		},
		"(time.Time).IsZero": func(in *Interp, _ *frame, _ token.Pos, _ []Value) Value {
			return in.ts.tFalse
		},
		"(time.Time).Add": func(in *Interp, _ *frame, _ token.Pos, args []Value) Value {
			return args[0]
		},

		// ---- errors ----
		"errors.Is": func(in *Interp, caller *frame, pos token.Pos, args []Value) Value {
			err, target := args[0].(Iface), args[1].(Iface)
			for i := 0; i < 8; i++ {
				if err.t == nil {
					return in.ts.Bool(target.t == nil)
				}
				if target.t != nil && types.Identical(err.t, target.t) {
					if in.decideBool(in.equals(err.v, target.v)) {
						return in.ts.tTrue
					}
				}
				// Unwrap() error
				var next Value
				if m := in.prog.LookupMethod(err.t, nil, "Unwrap"); m != nil && m.Signature.Results().Len() == 1 {
					next = in.call(caller, pos, m, []Value{err.v})
				}
				n, ok := next.(Iface)
				if !ok {
					return in.ts.tFalse
				}
				err = n
			}
			return in.ts.tFalse
		},

		// ---- math/rand ----
		"math/rand.NewSource": func(in *Interp, _ *frame, _ token.Pos, _ []Value) Value { return Iface{} },
		"math/rand.New":       func(in *Interp, _ *frame, _ token.Pos, _ []Value) Value { return (*Value)(nil) },
		"math/rand.Intn": func(in *Interp, _ *frame, _ token.Pos, args []Value) Value {
			if !in.randNondet {
				return in.ts.Const(64, 0)
			}
			t := in.freshVar(64, "rand")
			in.record("rand", t)
			in.assume(in.ts.And(in.ts.Cmp(OSLe, in.ts.Const(64, 0), t), in.ts.Cmp(OSLt, t, args[0].(*Term))), "rand.Intn range")
			return t
		},
		"(*math/rand.Rand).Int": func(in *Interp, _ *frame, _ token.Pos, _ []Value) Value {
			if !in.randNondet {
				return in.ts.Const(64, 1) // deterministic unless the harness asks for nondeterministic randomness
			}
			t := in.freshVar(64, "rand")
			in.record("rand", t)
			in.assume(in.ts.Cmp(OSLe, in.ts.Const(64, 0), t), "rand.Int >= 0")
			return t
		},
		"(*math/rand.Rand).Intn": func(in *Interp, _ *frame, _ token.Pos, args []Value) Value {
			if !in.randNondet {
				return in.ts.Const(64, 0)
			}
			t := in.freshVar(64, "rand")
			in.record("rand", t)
			in.assume(in.ts.And(in.ts.Cmp(OSLe, in.ts.Const(64, 0), t), in.ts.Cmp(OSLt, t, args[1].(*Term))), "rand.Intn range")
			return t
		},
	}
	for _, n := range []string{"session).log", "session).logf", "DB).log", "DB).logf"} {
		stdIntrinsics["(*"+modPath+"/leveldb."+n] = nop
	}
	f1 := func(f func(float64) float64) intrinsicFn {
		return func(in *Interp, _ *frame, _ token.Pos, args []Value) Value { return FloatV(f(float64(args[0].(FloatV)))) }
	}
	f2 := func(f func(a, b float64) float64) intrinsicFn {
		return func(in *Interp, _ *frame, _ token.Pos, args []Value) Value {
			return FloatV(f(float64(args[0].(FloatV)), float64(args[1].(FloatV))))
		}
	}
	stdIntrinsics["math.Pow"] = f2(math.Pow)
	stdIntrinsics["math.Abs"] = f1(math.Abs)
	stdIntrinsics["math.Floor"] = f1(math.Floor)
	stdIntrinsics["math.Ceil"] = f1(math.Ceil)
	stdIntrinsics["math.Sqrt"] = f1(math.Sqrt)
	stdIntrinsics["math.Log"] = f1(math.Log)
	stdIntrinsics["math.Exp"] = f1(math.Exp)
	stdIntrinsics["math.Max"] = f2(math.Max)
	stdIntrinsics["math.Min"] = f2(math.Min)
	stdIntrinsics["math.Float64bits"] = func(in *Interp, _ *frame, _ token.Pos, args []Value) Value {
		return in.ts.Const(64, math.Float64bits(float64(args[0].(FloatV))))
	}
	stdIntrinsics["math.Float64frombits"] = func(in *Interp, _ *frame, _ token.Pos, args []Value) Value {
		t := args[0].(*Term)
		if t.op != OConst {
			panic(unsupported("Float64frombits of symbolic value"))
		}
		return FloatV(math.Float64frombits(t.val))
	}
	addAtomics()
}

func intrOpaqueFmt(fn *ssa.Function) intrinsicFn {
	name := fn.String()
	return func(in *Interp, _ *frame, _ token.Pos, args []Value) Value {
		switch name {
		case "fmt.Sprintf", "fmt.Sprint", "fmt.Sprintln":
			s := "<fmt>"
			if len(args) > 0 {
				if f, ok := args[0].(string); ok {
					s = f
				}
			}
			return s
		case "fmt.Errorf":
			s := "<fmt.Errorf>"
			if f, ok := args[0].(string); ok {
				s = f
			}
			return in.mkError(s)
		}
		res := fn.Signature.Results()
		if res.Len() == 0 {
			return nil
		}
		return in.zero(res)
	}
}

func overlaps(a, b Slice) bool {
	if cap(a) == 0 || cap(b) == 0 {
		return false
	}
	// same backing array iff the addresses of their last capacity cells coincide
	ea := &a[:cap(a)][cap(a)-1]
	eb := &b[:cap(b)][cap(b)-1]
	return ea == eb
}

// ---- perfect-checksum model for crc32 (DESIGN §2.4) ----

type crcApp struct {
	init *Term
	b    []*Term
	res  *Term
}

func (in *Interp) crc(init *Term, b []*Term) *Term {
	ts := in.ts
	// all-concrete: still uninterpreted but memoised structurally
	for _, a := range in.crcApps {
		if a.init == init && len(a.b) == len(b) {
			same := true
			for i := range b {
				if a.b[i] != b[i] {
					same = false
					break
				}
			}
			if same {
				return a.res
			}
		}
	}
	r := in.freshVar(32, "crc")
	in.record("crc", r)
	for _, a := range in.crcApps {
		// functional consistency and injectivity (perfect checksum) per length;
		// different lengths: distinct results assumed (collision freeness)
		if len(a.b) == len(b) {
			eq := ts.And(ts.Cmp(OEq, a.init, init), in.eqBytes(a.b, b))
			in.assume(ts.Iff(eq, ts.Cmp(OEq, a.res, r)), "crc perfect checksum")
		} else {
			in.assume(ts.Not(ts.Cmp(OEq, a.res, r)), "crc perfect checksum (lengths differ)")
		}
	}
	in.crcApps = append(in.crcApps, crcApp{init, append([]*Term(nil), b...), r})
	in.w.usedOpaque = true
	return r
}

// ---- symbolic rank (any comparer satisfying the contract) ----

type rankApp struct {
	b   []*Term
	res *Term
}

func (in *Interp) rank(b []*Term) *Term {
	ts := in.ts
	if len(b) == 0 {
		return ts.Const(64, 0)
	}
	for _, a := range in.rankApps {
		if len(a.b) == len(b) {
			same := true
			for i := range b {
				if a.b[i] != b[i] {
					same = false
					break
				}
			}
			if same {
				return a.res
			}
		}
	}
	r := in.freshVar(64, "rank")
	in.tape = append(in.tape, TapeEntry{Kind: "rank", W: 64, Term: r, KeyTerms: append([]*Term(nil), b...)})
	in.assume(ts.Not(ts.Cmp(OEq, r, ts.Const(64, 0))), "rank(nonempty) != rank(empty)")
	for _, a := range in.rankApps {
		if len(a.b) == len(b) {
			in.assume(ts.Iff(in.eqBytes(a.b, b), ts.Cmp(OEq, a.res, r)), "rank injective/functional")
		} else {
			in.assume(ts.Not(ts.Cmp(OEq, a.res, r)), "rank injective")
		}
	}
	in.rankApps = append(in.rankApps, rankApp{append([]*Term(nil), b...), r})
	return r
}

// ---- sync/atomic ----

func addAtomics() {
	type spec struct {
		name string
		w    uint8
	}
	for _, s := range []spec{{"Int32", 32}, {"Int64", 64}, {"Uint32", 32}, {"Uint64", 64}, {"Uintptr", 64}} {
		s := s
		stdIntrinsics["sync/atomic.Load"+s.name] = func(in *Interp, _ *frame, pos token.Pos, args []Value) Value {
			in.schedPointSync()
			return in.load(args[0], pos)
		}
		stdIntrinsics["sync/atomic.Store"+s.name] = func(in *Interp, _ *frame, pos token.Pos, args []Value) Value {
			in.schedPointSync()
			in.store(args[0], args[1], pos)
			return nil
		}
		stdIntrinsics["sync/atomic.Add"+s.name] = func(in *Interp, _ *frame, pos token.Pos, args []Value) Value {
			in.schedPointSync()
			v := in.ts.Bin(OAdd, in.load(args[0], pos).(*Term), args[1].(*Term))
			in.store(args[0], v, pos)
			return v
		}
		stdIntrinsics["sync/atomic.Swap"+s.name] = func(in *Interp, _ *frame, pos token.Pos, args []Value) Value {
			in.schedPointSync()
			old := in.load(args[0], pos)
			in.store(args[0], args[1], pos)
			return old
		}
		stdIntrinsics["sync/atomic.CompareAndSwap"+s.name] = func(in *Interp, _ *frame, pos token.Pos, args []Value) Value {
			in.schedPointSync()
			old := in.load(args[0], pos).(*Term)
			if in.decideBool(in.ts.Cmp(OEq, old, args[1].(*Term))) {
				in.store(args[0], args[2], pos)
				return in.ts.tTrue
			}
			return in.ts.tFalse
		}
	}
	stdIntrinsics["sync/atomic.LoadPointer"] = func(in *Interp, _ *frame, pos token.Pos, args []Value) Value {
		in.schedPointSync()
		return in.load(args[0], pos)
	}
	stdIntrinsics["sync/atomic.StorePointer"] = func(in *Interp, _ *frame, pos token.Pos, args []Value) Value {
		in.schedPointSync()
		in.store(args[0], args[1], pos)
		return nil
	}
	stdIntrinsics["sync/atomic.SwapPointer"] = func(in *Interp, _ *frame, pos token.Pos, args []Value) Value {
		in.schedPointSync()
		old := in.load(args[0], pos)
		in.store(args[0], args[1], pos)
		return old
	}
	stdIntrinsics["sync/atomic.CompareAndSwapPointer"] = func(in *Interp, _ *frame, pos token.Pos, args []Value) Value {
		in.schedPointSync()
		old := in.load(args[0], pos)
		if in.decideBool(in.equals(old, args[1])) {
			in.store(args[0], args[2], pos)
			return in.ts.tTrue
		}
		return in.ts.tFalse
	}
}

var _ = fmt.Sprint
