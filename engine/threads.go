package main

// Cooperative threads for `go` statements. Each interpreted goroutine runs on
// its own host goroutine but only one holds the baton at any time; control is
// transferred only at scheduling points (channel, mutex, atomic, go, exit), and
// the choice of the next thread is a decision of the explorer.

import (
	"os"
	"fmt"
	"go/token"
	"go/types"

	"golang.org/x/tools/go/ssa"
)

type Thread struct {
	id      int
	resume  chan struct{}
	done    bool
	waiting func() bool // non-nil while blocked; true when it may proceed
	what    string
	pos     token.Pos
	// channel wake-up
	woken    bool
	wokeCase int
	recvVal  Value
	recvOk   bool
	offers   []offer
	exited   chan struct{}
	sendPanic bool
	eager     bool // scheduled as soon as runnable, without a choice (partner goroutines that only talk over channels)
}

type offer struct {
	ch   *ChanV
	send bool
	val  Value
	idx  int
}

func (in *Interp) newChan(n int, elem types.Type) *ChanV {
	in.nchan++
	return &ChanV{id: in.nchan, cap: n, elemT: elem}
}

func (in *Interp) spawn(fn Value, args []Value, pos token.Pos) {
	th := &Thread{id: len(in.threads), resume: make(chan struct{}), exited: make(chan struct{})}
	in.threads = append(in.threads, th)
	go func() {
		defer close(th.exited)
		<-th.resume
		if in.ending {
			return
		}
		defer func() {
			r := recover()
			th.done = true
			switch r := r.(type) {
			case nil:
			case threadKill:
				return
			case pathEnd:
				in.endFromThread(r)
				return
			case targetPanic:
				in.endFromThread(in.panicEnd(r))
				return
			default:
				in.endFromThread(pathEnd{PathUnsupported, fmt.Sprintf("engine panic in thread: %v", r)})
				return
			}
			// normal exit: hand the baton to someone else
			in.threadExit()
		}()
		in.cur = th
		in.call(nil, pos, fn, args)
	}()
	in.schedPoint()
}

// endFromThread records a path end raised in a non-main thread and wakes the
// main thread, which unwinds.
func (in *Interp) endFromThread(pe pathEnd) {
	in.ending = true
	in.endStatus = &pe
	main := in.threads[0]
	main.resume <- struct{}{}
}

func (in *Interp) threadExit() {
	next := in.pickNext(nil)
	if next == nil {
		// nobody can run: either all done (main finished earlier?) or deadlock
		in.endFromThread(pathEnd{PathDeadlock, in.deadlockMsg()})
		return
	}
	in.cur = next
	next.resume <- struct{}{}
}

func (in *Interp) enabled() []*Thread {
	var en []*Thread
	for _, t := range in.threads {
		if t.done {
			continue
		}
		if t.waiting == nil || t.waiting() {
			en = append(en, t)
		}
	}
	return en
}

func (in *Interp) deadlockMsg() string {
	s := "no runnable thread:"
	for _, t := range in.threads {
		if !t.done {
			s += fmt.Sprintf(" [t%d blocked on %s at %s]", t.id, t.what, in.posStr(t.pos))
		}
	}
	return s
}

// pickNext chooses the next thread among the enabled ones (excluding none).
// cur (may be nil) is preferred without spending switch budget.
func (in *Interp) pickNext(cur *Thread) *Thread {
	en := in.enabled()
	if len(en) == 0 {
		return nil
	}
	curEnabled := false
	for _, t := range en {
		if t == cur {
			curEnabled = true
		}
	}
	// eager threads run as soon as they are runnable, deterministically; when
	// they block again the thread they interrupted goes on (no choice either)
	if curEnabled && cur.eager {
		return cur
	}
	for _, t := range en {
		if t.eager {
			if curEnabled && !cur.eager {
				in.interrupted = cur
			}
			return t
		}
	}
	if in.cur != nil && in.cur.eager && in.interrupted != nil {
		back := in.interrupted
		in.interrupted = nil
		for _, t := range en {
			if t == back {
				return t
			}
		}
	}
	if curEnabled && in.swBudget <= 0 {
		return cur
	}
	if len(en) == 1 {
		return en[0]
	}
	// order: current first (choice 0 = no switch)
	if curEnabled {
		ord := []*Thread{cur}
		for _, t := range en {
			if t != cur {
				ord = append(ord, t)
			}
		}
		en = ord
	}
	if os.Getenv("VERIF_SCHEDDBG") != "" && in.w != nil && in.w.pos >= len(in.w.events) {
		cs := "nil"
		if cur != nil {
			cs = fmt.Sprintf("t%d(en=%v)", cur.id, curEnabled)
		}
		ids := ""
		for _, t := range en {
			ids += fmt.Sprintf(" t%d", t.id)
		}
		where := ""
		if in.cur != nil {
			where = in.cur.what + "@" + in.posStr(in.cur.pos)
		}
		fmt.Fprintf(os.Stderr, "SCHED cur=%s incur=t%d budget=%d en=[%s] %s\n", cs, in.cur.id, in.swBudget, ids, where)
	}
	c := in.choose(len(en), "sched")
	in.tape = append(in.tape, TapeEntry{Kind: "sched", Val: uint64(c)})
	if curEnabled && c != 0 {
		in.swBudget--
	}
	return en[c]
}

// schedPoint lets the explorer switch threads.
// schedPointSync is a scheduling point at a mutex or atomic operation; in
// "chan" mode only channel operations, go and thread exit are scheduling
// points (mutex-protected sections and atomics are then assumed not to
// interact with the protocol under test other than through blocking).
func (in *Interp) schedPointSync() {
	if in.chanOnly {
		return
	}
	in.schedPoint()
}

func (in *Interp) schedPoint() {
	if len(in.threads) <= 1 {
		return
	}
	cur := in.cur
	next := in.pickNext(cur)
	if next == nil {
		panic(pathEnd{PathDeadlock, in.deadlockMsg()})
	}
	if next == cur {
		return
	}
	in.switchTo(cur, next)
}

func (in *Interp) switchTo(cur, next *Thread) {
	in.cur = next
	next.resume <- struct{}{}
	<-cur.resume
	if in.ending {
		if cur.id == 0 {
			panic(*in.endStatus)
		}
		panic(threadKill{})
	}
	in.cur = cur
}

// block suspends the current thread until cond() holds.
func (in *Interp) block(cond func() bool, what string, pos token.Pos) {
	cur := in.cur
	if cond() {
		if in.chanOnly && (what == "Mutex.Lock" || what == "RWMutex.Lock" || what == "RWMutex.RLock") {
			return
		}
		in.schedPoint()
		if cond() {
			return
		}
	}
	for !cond() {
		cur.waiting = cond
		cur.what = what
		cur.pos = pos
		next := in.pickNext(nil)
		if next == nil {
			panic(pathEnd{PathDeadlock, in.deadlockMsg()})
		}
		if next != cur {
			in.switchTo(cur, next)
		}
		cur.waiting = nil
	}
}

func (in *Interp) joinAll() {
	in.block(func() bool {
		for _, t := range in.threads[1:] {
			if !t.done {
				return false
			}
		}
		return true
	}, "vpJoin", token.NoPos)
}

// killThreads terminates all parked threads at the end of a path.
func (in *Interp) killThreads() {
	in.ending = true
	for _, t := range in.threads[1:] {
		select {
		case <-t.exited:
			continue
		default:
		}
		select {
		case t.resume <- struct{}{}:
		case <-t.exited:
		}
		<-t.exited
	}
}

// ---- mutexes ----

func (in *Interp) lockEvent(kind string, cell *Value) {}

func (in *Interp) mutexLock(cell *Value, pos token.Pos) {
	in.block(func() bool { return (*cell).(*Term).val == 0 }, "Mutex.Lock", pos)
	*cell = in.ts.Const(32, 1)
}

func (in *Interp) mutexUnlock(cell *Value, pos token.Pos) {
	if (*cell).(*Term).val == 0 {
		panic(targetPanic{msg: "fatal error: sync: unlock of unlocked mutex", pos: pos})
	}
	*cell = in.ts.Const(32, 0)
	in.schedPointSync()
}

func (in *Interp) rwLock(s Struct, pos token.Pos) {
	w := &s[0].(Struct)[0]
	// a writer waiting in Lock blocks new readers (sync.RWMutex's documented
	// behaviour: recursive read locking can deadlock); s[2] counts waiting writers
	s[2] = in.ts.Const(32, s[2].(*Term).val+1)
	in.block(func() bool { return (*w).(*Term).val == 0 && s[1].(*Term).val == 0 }, "RWMutex.Lock", pos)
	s[2] = in.ts.Const(32, s[2].(*Term).val-1)
	*w = in.ts.Const(32, 1)
}

func (in *Interp) rwRLock(s Struct, pos token.Pos) {
	w := &s[0].(Struct)[0]
	in.block(func() bool { return (*w).(*Term).val == 0 && s[2].(*Term).val == 0 }, "RWMutex.RLock", pos)
	s[1] = in.ts.Const(32, s[1].(*Term).val+1)
}

// ---- channels ----

func (in *Interp) findPartner(ch *ChanV, wantSend bool) (*Thread, int) {
	for _, t := range in.threads {
		if t == in.cur || t.done || t.woken {
			continue
		}
		for i, o := range t.offers {
			if o.ch == ch && o.send == wantSend {
				return t, i
			}
		}
	}
	return nil, -1
}

// trySend attempts a send without blocking.
func (in *Interp) trySend(ch *ChanV, v Value, pos token.Pos) bool {
	if ch.closed {
		panic(targetPanic{msg: "send on closed channel", pos: pos})
	}
	if t, i := in.findPartner(ch, false); t != nil && len(ch.buf) == 0 {
		t.woken = true
		t.wokeCase = t.offers[i].idx
		t.recvVal = v
		t.recvOk = true
		t.offers = nil
		return true
	}
	if len(ch.buf) < ch.cap {
		ch.buf = append(ch.buf, v)
		return true
	}
	return false
}

func (in *Interp) tryRecv(ch *ChanV) (Value, bool, bool) {
	if len(ch.buf) > 0 {
		v := ch.buf[0]
		ch.buf = append([]Value(nil), ch.buf[1:]...)
		// a blocked sender can now fill the buffer
		if t, i := in.findPartner(ch, true); t != nil {
			ch.buf = append(ch.buf, t.offers[i].val)
			t.woken = true
			t.wokeCase = t.offers[i].idx
			t.offers = nil
		}
		return v, true, true
	}
	if t, i := in.findPartner(ch, true); t != nil {
		v := t.offers[i].val
		t.woken = true
		t.wokeCase = t.offers[i].idx
		t.offers = nil
		return v, true, true
	}
	if ch.closed {
		return nil, false, true
	}
	return nil, false, false
}

func (in *Interp) waitOffers(offers []offer, what string, pos token.Pos) *Thread {
	cur := in.cur
	cur.offers = offers
	cur.woken = false
	cur.sendPanic = false
	in.block(func() bool { return cur.woken }, what, pos)
	cur.woken = false
	cur.offers = nil
	return cur
}

func (in *Interp) chanSend(ch *ChanV, v Value, pos token.Pos) {
	in.schedPoint()
	if ch == nil {
		in.block(func() bool { return false }, "send on nil channel", pos)
	}
	if in.trySend(ch, v, pos) {
		return
	}
	cur := in.waitOffers([]offer{{ch: ch, send: true, val: v, idx: 0}}, "chan send", pos)
	if cur.sendPanic {
		panic(targetPanic{msg: "send on closed channel", pos: pos})
	}
}

func (in *Interp) chanRecv(ch *ChanV, pos token.Pos) (Value, bool) {
	in.schedPoint()
	if ch == nil {
		in.block(func() bool { return false }, "receive from nil channel", pos)
	}
	if v, ok, done := in.tryRecv(ch); done {
		return v, ok
	}
	cur := in.waitOffers([]offer{{ch: ch, send: false, idx: 0}}, "chan receive", pos)
	return cur.recvVal, cur.recvOk
}

func (in *Interp) chanClose(ch *ChanV, pos token.Pos) {
	if ch == nil {
		panic(targetPanic{msg: "close of nil channel", pos: pos})
	}
	if ch.closed {
		panic(targetPanic{msg: "close of closed channel", pos: pos})
	}
	ch.closed = true
	for _, t := range in.threads {
		if t.done || t.woken {
			continue
		}
		for _, o := range t.offers {
			if o.ch == ch {
				t.woken = true
				t.wokeCase = o.idx
				t.recvVal = nil
				t.recvOk = false
				t.sendPanic = o.send
				t.offers = nil
				break
			}
		}
	}
	in.schedPoint()
}

func (in *Interp) selectOp(fr *frame, instr *ssa.Select) Value {
	in.schedPoint()
	type cs struct {
		ch   *ChanV
		send bool
		val  Value
	}
	cases := make([]cs, len(instr.States))
	for i, st := range instr.States {
		c := cs{ch: fr.get(st.Chan).(*ChanV), send: st.Dir == types.SendOnly}
		if c.send {
			c.val = fr.get(st.Send)
		}
		cases[i] = c
	}
	// which cases are ready now?
	var ready []int
	for i, c := range cases {
		if c.ch == nil {
			continue
		}
		if c.send {
			if c.ch.closed {
				ready = append(ready, i)
				continue
			}
			if t, _ := in.findPartner(c.ch, false); (t != nil && len(c.ch.buf) == 0) || len(c.ch.buf) < c.ch.cap {
				ready = append(ready, i)
			}
		} else {
			if len(c.ch.buf) > 0 || c.ch.closed {
				ready = append(ready, i)
				continue
			}
			if t, _ := in.findPartner(c.ch, true); t != nil {
				ready = append(ready, i)
			}
		}
	}
	chosen := -1
	var rv Value
	rok := false
	if len(ready) > 0 {
		k := 0
		if len(ready) > 1 {
			k = in.choose(len(ready), "select")
			in.tape = append(in.tape, TapeEntry{Kind: "sched", Val: uint64(k)})
		}
		chosen = ready[k]
		c := cases[chosen]
		if c.send {
			if !in.trySend(c.ch, c.val, instr.Pos()) {
				panic(engineError{"select: ready send failed"})
			}
		} else {
			v, ok, done := in.tryRecv(c.ch)
			if !done {
				panic(engineError{"select: ready recv failed"})
			}
			rv, rok = v, ok
		}
	} else if !instr.Blocking {
		chosen = -1
	} else {
		var offers []offer
		for i, c := range cases {
			if c.ch != nil {
				offers = append(offers, offer{ch: c.ch, send: c.send, val: c.val, idx: i})
			}
		}
		if len(offers) == 0 {
			in.block(func() bool { return false }, "select with no cases", instr.Pos())
		}
		cur := in.waitOffers(offers, "select", instr.Pos())
		chosen = cur.wokeCase
		if cur.sendPanic {
			panic(targetPanic{msg: "send on closed channel", pos: instr.Pos()})
		}
		rv, rok = cur.recvVal, cur.recvOk
	}
	r := Tuple{in.ts.Const(64, uint64(int64(chosen))), in.ts.Bool(rok)}
	for i, st := range instr.States {
		if st.Dir == types.RecvOnly {
			var v Value
			if i == chosen && rok {
				v = rv
			} else {
				v = in.zero(st.Chan.Type().Underlying().(*types.Chan).Elem())
			}
			r = append(r, v)
		}
	}
	return r
}
