package main

// selftest: engine self-validation that does not depend on any property.
//  1. determinism: the set of explored paths (decision signatures) is the same
//     with 1 worker and with N workers, with no duplicates (guards the
//     work-sharing and the solver-stack bookkeeping);
//  2. vacuity twin: a harness ending in assert(false) is reported violated and
//     the witness replays natively;
//  3. a seeded mutant-free sanity run of the repo's own key_test vectors is
//     done by the natively compiled harness through replay.

import (
	"flag"
	"fmt"
	"os"
)

func cmdSelftest(args []string) {
	fs := flag.NewFlagSet("selftest", flag.ExitOnError)
	smoke := fs.Bool("smoke", false, "short version")
	fs.Parse(args)
	ok := true
	type tc struct{ suite, fn string }
	cases := []tc{{"key", "ZZ_C15_usersep"}, {"key", "ZZ_C15_sep_bytewise"}}
	if !*smoke {
		cases = append(cases, tc{"journal16", "ZZ_C12_dmg_byte1"}, tc{"journal16", "ZZ_C12_rt1"})
	}
	for _, c := range cases {
		s, err := readSuite(c.suite)
		if err != nil {
			fatal(err)
		}
		ld, err := loadSuite(s)
		if err != nil {
			fatal(err)
		}
		var spec *HarnessSpec
		for i := range s.Harnesses {
			if s.Harnesses[i].Fn == c.fn {
				spec = &s.Harnesses[i]
			}
		}
		var sigs [2]map[string]int
		for k, nw := range []int{1, 16} {
			cfg := defaultCfg(spec, "quick")
			cfg.Workers = nw
			cfg.CollectSigs = true
			res := runHarnessSpec(ld, spec, cfg)
			sigs[k] = res.Sigs
			for sig, n := range res.Sigs {
				if n != 1 {
					fmt.Printf("SELFTEST FAIL %s: path explored %d times with %d workers: %s\n", c.fn, n, nw, sig)
					ok = false
				}
			}
		}
		for sig := range sigs[0] {
			if _, in := sigs[1][sig]; !in {
				fmt.Printf("SELFTEST FAIL %s: path only in 1-worker run: %s\n", c.fn, sig)
				ok = false
			}
		}
		for sig := range sigs[1] {
			if _, in := sigs[0][sig]; !in {
				fmt.Printf("SELFTEST FAIL %s: path only in 16-worker run: %s\n", c.fn, sig)
				ok = false
			}
		}
		fmt.Printf("selftest determinism %s/%s: %d paths, identical sets with 1 and 16 workers\n", c.suite, c.fn, len(sigs[0]))
	}
	// vacuity twin
	{
		s, _ := readSuite("key")
		ld, err := loadSuite(s)
		if err != nil {
			fatal(err)
		}
		for i := range s.Harnesses {
			spec := &s.Harnesses[i]
			if spec.Fn != "ZZ_C15_order_witness" {
				continue
			}
			cfg := defaultCfg(spec, "quick")
			cfg.MaxPaths = 50
			res := runHarnessSpec(ld, spec, cfg)
			if len(res.Violations) == 0 {
				fmt.Println("SELFTEST FAIL: assert(false) twin not violated")
				ok = false
			} else {
				rep, out, err := nativeReplay(s, spec, &res.Violations[0])
				if !rep {
					fmt.Println("SELFTEST FAIL: witness of assert(false) twin did not replay natively", err, tail(out, 10))
					ok = false
				} else {
					fmt.Println("selftest vacuity twin: violated and replayed natively")
				}
			}
		}
	}
	if !ok {
		os.Exit(1)
	}
	fmt.Println("selftest: ok")
}
