package main

import (
	"fmt"
	"os"
)

func cmdSelftest(args []string) {
	fmt.Println("selftest: TODO")
	os.Exit(0)
}
