package main

// Incremental SMT solver over a pipe (z3 -in). One process per worker; the
// assertion stack is kept in step with the DFS decision stack by push/pop.
// Term nodes are introduced with define-fun (global declarations on), so the
// DAG is shared and survives pops.

import (
	"bufio"
	"fmt"
	"io"
	"os"
	"os/exec"
	"strconv"
	"strings"
	"time"
)

type SatResult int

const (
	Unsat SatResult = iota
	Sat
	Unknown
)

func (r SatResult) String() string { return [...]string{"unsat", "sat", "unknown"}[r] }

type Solver struct {
	cmd      *exec.Cmd
	in       io.WriteCloser
	out      *bufio.Reader
	defined  []bool // by term id
	declared []bool
	declVars []*Term
	levels   int
	ts       *TermStore
	log      io.Writer
	// stats
	Queries    int
	NSat       int
	NUnsat     int
	NUnknown   int
	SolverTime time.Duration
	timeoutMs  int
	buf        strings.Builder
	kind       string
	dead       bool
	winT       time.Duration
	winN       int
	slow       int
	stack      [][]*Term // assertions per level (level 0 first)
	OneShots   int
	OneShotOK  int
}

func solverArgs(kind string, timeoutMs int) (string, []string) {
	switch kind {
	case "z3-new":
		return "z3-new", []string{"-in", "-t:" + strconv.Itoa(timeoutMs)}
	case "cvc5":
		return "cvc5", []string{"--incremental", "--lang=smt2", "--produce-models", "--global-declarations", "--tlimit-per=" + strconv.Itoa(timeoutMs)}
	}
	return "z3", []string{"-in", "-t:" + strconv.Itoa(timeoutMs)}
}

func NewSolver(ts *TermStore, kind string, timeoutMs int) (*Solver, error) {
	bin, args := solverArgs(kind, timeoutMs)
	cmd := exec.Command(bin, args...)
	in, err := cmd.StdinPipe()
	if err != nil {
		return nil, err
	}
	out, err := cmd.StdoutPipe()
	if err != nil {
		return nil, err
	}
	cmd.Stderr = os.Stderr
	if err := cmd.Start(); err != nil {
		return nil, err
	}
	s := &Solver{cmd: cmd, in: in, out: bufio.NewReaderSize(out, 1<<16), ts: ts, timeoutMs: timeoutMs, kind: kind}
	s.stack = [][]*Term{nil}
	if d := os.Getenv("VERIF_SMTLOG"); d != "" {
		os.MkdirAll(d, 0o755)
		f, _ := os.CreateTemp(d, "w*.smt2")
		s.log = f
	}
	if kind != "cvc5" {
		s.send("(set-option :global-decls true)\n")
	}
	s.send("(set-option :produce-models true)\n")
	if kind == "cvc5" {
		s.send("(set-logic QF_BV)\n")
	}
	return s, nil
}

func (s *Solver) Close() {
	if s.cmd != nil {
		s.in.Close()
		s.cmd.Process.Kill()
		s.cmd.Wait()
		s.cmd = nil
	}
}

func (s *Solver) send(str string) {
	if s.log != nil {
		io.WriteString(s.log, str)
	}
	if s.dead {
		return
	}
	if _, err := io.WriteString(s.in, str); err != nil {
		s.dead = true // see readLine
		return
	}
}

// define makes sure t and all its subterms are known to the solver; the
// commands are accumulated into s.buf.
func (s *Solver) define(t *Term) {
	for int(t.id) >= len(s.defined) {
		s.defined = append(s.defined, make([]bool, 1024)...)
	}
	if s.defined[t.id] {
		return
	}
	// iterative post-order to avoid deep recursion
	type fr struct {
		t *Term
		k int
	}
	stack := []fr{{t, 0}}
	for len(stack) > 0 {
		f := &stack[len(stack)-1]
		x := f.t
		for int(x.id) >= len(s.defined) {
			s.defined = append(s.defined, make([]bool, 1024)...)
		}
		if s.defined[x.id] {
			stack = stack[:len(stack)-1]
			continue
		}
		if x.op == OConst {
			s.defined[x.id] = true
			stack = stack[:len(stack)-1]
			continue
		}
		if x.op == OVar {
			fmt.Fprintf(&s.buf, "(declare-const %s %s)\n", x.name, sortOf(x.w))
			s.declVars = append(s.declVars, x)
			s.defined[x.id] = true
			stack = stack[:len(stack)-1]
			continue
		}
		var ch *Term
		switch f.k {
		case 0:
			ch = x.a
		case 1:
			ch = x.b
		case 2:
			ch = x.c
		}
		f.k++
		if f.k <= 3 {
			if ch != nil {
				for int(ch.id) >= len(s.defined) {
					s.defined = append(s.defined, make([]bool, 1024)...)
				}
				if !s.defined[ch.id] {
					stack = append(stack, fr{ch, 0})
				}
			}
			continue
		}
		fmt.Fprintf(&s.buf, "(define-fun t%d () %s %s)\n", x.id, sortOf(x.w), x.body())
		s.defined[x.id] = true
		stack = stack[:len(stack)-1]
	}
}

func (s *Solver) flush() {
	if s.buf.Len() > 0 {
		s.send(s.buf.String())
		s.buf.Reset()
	}
}

func (s *Solver) Push() {
	s.buf.WriteString("(push 1)\n")
	s.levels++
	s.stack = append(s.stack, nil)
}

func (s *Solver) Pop(n int) {
	if n <= 0 {
		return
	}
	fmt.Fprintf(&s.buf, "(pop %d)\n", n)
	s.levels -= n
	s.stack = s.stack[:len(s.stack)-n]
}

func (s *Solver) Assert(t *Term) {
	if t.IsTrue() {
		return
	}
	s.define(t)
	fmt.Fprintf(&s.buf, "(assert %s)\n", t.ref())
	s.stack[len(s.stack)-1] = append(s.stack[len(s.stack)-1], t)
}

func (s *Solver) readLine() string {
	line, err := s.out.ReadString('\n')
	if err != nil {
		// the solver process is gone (killed by the watchdog, or died on its
		// own): the answer is unknown, the one-shot fallback decides the
		// query and the worker restarts the solver after the path
		s.dead = true
		return "unknown"
	}
	return strings.TrimSpace(line)
}

// Check runs check-sat. On Sat, if m != nil the model is read into it.
func (s *Solver) Check(m *Model) SatResult {
	if s.dead {
		return Unknown
	}
	// adaptive: after a slow/unknown incremental answer, ask the one-shot
	// tactic solver first; probe the incremental core again now and then
	if s.slow > 0 {
		s.slow--
		s.Queries++
		t1 := time.Now()
		r := s.oneShot(m)
		if time.Since(t1) > 1500*time.Millisecond && s.slow < 4 {
			s.slow += 1
		}
		switch r {
		case Sat:
			s.NSat++
			return r
		case Unsat:
			s.NUnsat++
			return r
		}
		s.Queries--
	}
	s.buf.WriteString("(check-sat)\n")
	s.flush()
	t0 := time.Now()
	// hard watchdog: z3's soft timeout is not honoured inside some tactics
	wd := time.AfterFunc(time.Duration(s.timeoutMs)*time.Millisecond+5*time.Second, func() {
		s.dead = true
		s.cmd.Process.Kill()
	})
	defer wd.Stop()
	var res SatResult
	sawError := false
	for {
		line := s.readLine()
		if line == "" {
			continue
		}
		if strings.HasPrefix(line, "(error") {
			// treat as inconclusive; drain nothing else (errors are one line)
			fmt.Fprintf(os.Stderr, "solver error: %s\n", line)
			sawError = true
			// an error may precede the actual answer; keep reading
			continue
		}
		switch line {
		case "sat":
			res = Sat
		case "unsat":
			res = Unsat
		case "unknown", "timeout":
			res = Unknown
		default:
			fmt.Fprintf(os.Stderr, "solver: unexpected line %q\n", line)
			continue
		}
		break
	}
	if sawError {
		// an assertion may have been dropped: never trust the answer
		res = Unknown
	}
	s.SolverTime += time.Since(t0)
	s.Queries++
	if debugLatency {
		s.winT += time.Since(t0)
		s.winN++
		if s.winN == 2000 {
			fmt.Fprintf(os.Stderr, "solver latency: %d queries so far, last 2000 avg %.1f ms, %d terms defined\n", s.Queries, float64(s.winT.Milliseconds())/2000, len(s.ts.all))
			s.winT, s.winN = 0, 0
		}
	}
	switch res {
	case Sat:
		s.NSat++
	case Unsat:
		s.NUnsat++
	default:
		s.NUnknown++
	}
	if time.Since(t0) > time.Second {
		s.slow = 8
	}
	if s.dead || res == Unknown {
		s.slow = 16
		// fall back to a one-shot query in tactic mode (QF_BV, bit-blasting)
		r2 := s.oneShot(m)
		if r2 != Unknown {
			s.NUnknown--
			if r2 == Sat {
				s.NSat++
			} else {
				s.NUnsat++
			}
		}
		return r2
	}
	if res == Sat && m != nil {
		if !s.readModel(m) {
			// the solver died between the answer and the model
			return s.oneShot(m)
		}
	}
	return res
}

// oneShot decides the current assertion stack in a fresh solver process
// with (set-logic QF_BV): the tactic-based solver is far stronger on
// arithmetic-heavy queries than the incremental core.
func (s *Solver) oneShot(m *Model) SatResult {
	s.OneShots++
	t0 := time.Now()
	defer func() { s.SolverTime += time.Since(t0) }()
	var sb strings.Builder
	sb.WriteString("(set-logic QF_BV)\n")
	defd := map[int32]bool{}
	var vars []*Term
	var def func(t *Term)
	def = func(t *Term) {
		if defd[t.id] || t.op == OConst {
			return
		}
		defd[t.id] = true
		if t.op == OVar {
			fmt.Fprintf(&sb, "(declare-const %s %s)\n", t.name, sortOf(t.w))
			vars = append(vars, t)
			return
		}
		for _, c := range []*Term{t.a, t.b, t.c} {
			if c != nil {
				def(c)
			}
		}
		fmt.Fprintf(&sb, "(define-fun t%d () %s %s)\n", t.id, sortOf(t.w), t.body())
	}
	for _, lvl := range s.stack {
		for _, t := range lvl {
			def(t)
			fmt.Fprintf(&sb, "(assert %s)\n", t.ref())
		}
	}
	sb.WriteString("(check-sat)\n")
	if m != nil && len(vars) > 0 {
		sb.WriteString("(get-value (")
		for _, v := range vars {
			sb.WriteString(v.name + " ")
		}
		sb.WriteString("))\n")
	}
	f, err := os.CreateTemp("", "symgo-q-*.smt2")
	if err != nil {
		return Unknown
	}
	defer os.Remove(f.Name())
	f.WriteString(sb.String())
	f.Close()
	secs := s.timeoutMs/1000 + 1
	out, _ := exec.Command("z3-new", "-T:"+strconv.Itoa(secs), f.Name()).Output()
	o := strings.TrimSpace(string(out))
	if strings.Contains(o, "(error") && !strings.HasPrefix(o, "unsat") {
		return Unknown
	}
	switch {
	case strings.HasPrefix(o, "unsat"):
		s.OneShotOK++
		return Unsat
	case strings.HasPrefix(o, "sat"):
		s.OneShotOK++
		if m != nil {
			m.vals = map[int32]uint64{}
			m.cache = map[int32]uint64{}
			toks := strings.FieldsFunc(o[3:], func(r rune) bool { return r == '(' || r == ')' || r == ' ' || r == '\n' || r == '\t' })
			by := map[string]uint64{}
			for i := 0; i+1 < len(toks); i += 2 {
				by[toks[i]] = parseLit(toks[i+1])
			}
			for _, v := range vars {
				m.vals[v.id] = by[v.name]
			}
			// variables declared in the incremental solver but unconstrained here default to 0
		}
		return Sat
	}
	return Unknown
}

func (s *Solver) readModel(m *Model) bool {
	m.vals = make(map[int32]uint64, len(s.declVars))
	m.cache = make(map[int32]uint64)
	if len(s.declVars) == 0 {
		return true
	}
	var sb strings.Builder
	sb.WriteString("(get-value (")
	for _, v := range s.declVars {
		sb.WriteString(v.name)
		sb.WriteByte(' ')
	}
	sb.WriteString("))\n")
	s.send(sb.String())
	// response: ((n0 #x00) (n1 true) ...) possibly over several lines
	need := len(s.declVars)
	got := 0
	depth := 0
	started := false
	var tok strings.Builder
	var toks []string
	for !started || depth > 0 {
		line, err := s.out.ReadString('\n')
		if err != nil {
			s.dead = true
			return false
		}
		if strings.HasPrefix(strings.TrimSpace(line), "(error") {
			panic(engineError{"get-value: " + line})
		}
		for i := 0; i < len(line); i++ {
			c := line[i]
			switch c {
			case '(':
				depth++
				started = true
			case ')':
				if tok.Len() > 0 {
					toks = append(toks, tok.String())
					tok.Reset()
				}
				depth--
			case ' ', '\n', '\t', '\r':
				if tok.Len() > 0 {
					toks = append(toks, tok.String())
					tok.Reset()
				}
			default:
				tok.WriteByte(c)
			}
		}
	}
	// toks alternate name, value (z3 prints (_ bvN w) never in this mode)
	byName := make(map[string]uint64, need)
	for i := 0; i+1 < len(toks); i += 2 {
		byName[toks[i]] = parseLit(toks[i+1])
		got++
	}
	for _, v := range s.declVars {
		m.vals[v.id] = byName[v.name]
	}
	return true
}

func parseLit(s string) uint64 {
	switch {
	case s == "true":
		return 1
	case s == "false":
		return 0
	case strings.HasPrefix(s, "#x"):
		v, _ := strconv.ParseUint(s[2:], 16, 64)
		return v
	case strings.HasPrefix(s, "#b"):
		v, _ := strconv.ParseUint(s[2:], 2, 64)
		return v
	}
	panic(engineError{"cannot parse model literal " + s})
}

var debugLatency = os.Getenv("VERIF_LATENCY") != ""

type engineError struct{ msg string }

func (e engineError) Error() string { return e.msg }
