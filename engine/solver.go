package main

// Incremental SMT solver over a pipe (z3 -in). One process per worker; the
// assertion stack is kept in step with the DFS decision stack by push/pop.
// Term nodes are introduced with define-fun (global declarations on), so the
// DAG is shared and survives pops.

import (
	"bufio"
	"fmt"
	"io"
	"os"
	"os/exec"
	"strconv"
	"strings"
	"time"
)

type SatResult int

const (
	Unsat SatResult = iota
	Sat
	Unknown
)

func (r SatResult) String() string { return [...]string{"unsat", "sat", "unknown"}[r] }

type Solver struct {
	cmd      *exec.Cmd
	in       io.WriteCloser
	out      *bufio.Reader
	defined  []bool // by term id
	declared []bool
	declVars []*Term
	levels   int
	ts       *TermStore
	log      io.Writer
	// stats
	Queries    int
	NSat       int
	NUnsat     int
	NUnknown   int
	SolverTime time.Duration
	timeoutMs  int
	buf        strings.Builder
	kind       string
}

func solverArgs(kind string, timeoutMs int) (string, []string) {
	switch kind {
	case "z3-new":
		return "z3-new", []string{"-in", "-t:" + strconv.Itoa(timeoutMs)}
	case "cvc5":
		return "cvc5", []string{"--incremental", "--lang=smt2", "--produce-models", "--global-declarations", "--tlimit-per=" + strconv.Itoa(timeoutMs)}
	}
	return "z3", []string{"-in", "-t:" + strconv.Itoa(timeoutMs)}
}

func NewSolver(ts *TermStore, kind string, timeoutMs int) (*Solver, error) {
	bin, args := solverArgs(kind, timeoutMs)
	cmd := exec.Command(bin, args...)
	in, err := cmd.StdinPipe()
	if err != nil {
		return nil, err
	}
	out, err := cmd.StdoutPipe()
	if err != nil {
		return nil, err
	}
	cmd.Stderr = os.Stderr
	if err := cmd.Start(); err != nil {
		return nil, err
	}
	s := &Solver{cmd: cmd, in: in, out: bufio.NewReaderSize(out, 1<<16), ts: ts, timeoutMs: timeoutMs, kind: kind}
	if kind != "cvc5" {
		s.send("(set-option :global-decls true)\n")
	}
	s.send("(set-option :produce-models true)\n")
	if kind == "cvc5" {
		s.send("(set-logic QF_BV)\n")
	}
	return s, nil
}

func (s *Solver) Close() {
	if s.cmd != nil {
		s.in.Close()
		s.cmd.Process.Kill()
		s.cmd.Wait()
		s.cmd = nil
	}
}

func (s *Solver) send(str string) {
	if s.log != nil {
		io.WriteString(s.log, str)
	}
	if _, err := io.WriteString(s.in, str); err != nil {
		panic(engineError{"solver pipe write: " + err.Error()})
	}
}

// define makes sure t and all its subterms are known to the solver; the
// commands are accumulated into s.buf.
func (s *Solver) define(t *Term) {
	for int(t.id) >= len(s.defined) {
		s.defined = append(s.defined, make([]bool, 1024)...)
	}
	if s.defined[t.id] {
		return
	}
	// iterative post-order to avoid deep recursion
	type fr struct {
		t *Term
		k int
	}
	stack := []fr{{t, 0}}
	for len(stack) > 0 {
		f := &stack[len(stack)-1]
		x := f.t
		for int(x.id) >= len(s.defined) {
			s.defined = append(s.defined, make([]bool, 1024)...)
		}
		if s.defined[x.id] {
			stack = stack[:len(stack)-1]
			continue
		}
		if x.op == OConst {
			s.defined[x.id] = true
			stack = stack[:len(stack)-1]
			continue
		}
		if x.op == OVar {
			fmt.Fprintf(&s.buf, "(declare-const %s %s)\n", x.name, sortOf(x.w))
			s.declVars = append(s.declVars, x)
			s.defined[x.id] = true
			stack = stack[:len(stack)-1]
			continue
		}
		var ch *Term
		switch f.k {
		case 0:
			ch = x.a
		case 1:
			ch = x.b
		case 2:
			ch = x.c
		}
		f.k++
		if f.k <= 3 {
			if ch != nil {
				for int(ch.id) >= len(s.defined) {
					s.defined = append(s.defined, make([]bool, 1024)...)
				}
				if !s.defined[ch.id] {
					stack = append(stack, fr{ch, 0})
				}
			}
			continue
		}
		fmt.Fprintf(&s.buf, "(define-fun t%d () %s %s)\n", x.id, sortOf(x.w), x.body())
		s.defined[x.id] = true
		stack = stack[:len(stack)-1]
	}
}

func (s *Solver) flush() {
	if s.buf.Len() > 0 {
		s.send(s.buf.String())
		s.buf.Reset()
	}
}

func (s *Solver) Push() {
	s.buf.WriteString("(push 1)\n")
	s.levels++
}

func (s *Solver) Pop(n int) {
	if n <= 0 {
		return
	}
	fmt.Fprintf(&s.buf, "(pop %d)\n", n)
	s.levels -= n
}

func (s *Solver) Assert(t *Term) {
	if t.IsTrue() {
		return
	}
	s.define(t)
	fmt.Fprintf(&s.buf, "(assert %s)\n", t.ref())
}

func (s *Solver) readLine() string {
	line, err := s.out.ReadString('\n')
	if err != nil {
		panic(engineError{"solver pipe read: " + err.Error()})
	}
	return strings.TrimSpace(line)
}

// Check runs check-sat. On Sat, if m != nil the model is read into it.
func (s *Solver) Check(m *Model) SatResult {
	s.buf.WriteString("(check-sat)\n")
	s.flush()
	t0 := time.Now()
	var res SatResult
	for {
		line := s.readLine()
		if line == "" {
			continue
		}
		if strings.HasPrefix(line, "(error") {
			// treat as inconclusive; drain nothing else (errors are one line)
			fmt.Fprintf(os.Stderr, "solver error: %s\n", line)
			res = Unknown
			// an error may precede the actual answer; keep reading
			continue
		}
		switch line {
		case "sat":
			res = Sat
		case "unsat":
			res = Unsat
		case "unknown", "timeout":
			res = Unknown
		default:
			fmt.Fprintf(os.Stderr, "solver: unexpected line %q\n", line)
			continue
		}
		break
	}
	s.SolverTime += time.Since(t0)
	s.Queries++
	switch res {
	case Sat:
		s.NSat++
	case Unsat:
		s.NUnsat++
	default:
		s.NUnknown++
	}
	if res == Sat && m != nil {
		s.readModel(m)
	}
	return res
}

func (s *Solver) readModel(m *Model) {
	m.vals = make(map[int32]uint64, len(s.declVars))
	m.cache = make(map[int32]uint64)
	if len(s.declVars) == 0 {
		return
	}
	var sb strings.Builder
	sb.WriteString("(get-value (")
	for _, v := range s.declVars {
		sb.WriteString(v.name)
		sb.WriteByte(' ')
	}
	sb.WriteString("))\n")
	s.send(sb.String())
	// response: ((n0 #x00) (n1 true) ...) possibly over several lines
	need := len(s.declVars)
	got := 0
	depth := 0
	started := false
	var tok strings.Builder
	var toks []string
	for !started || depth > 0 {
		line, err := s.out.ReadString('\n')
		if err != nil {
			panic(engineError{"solver pipe read: " + err.Error()})
		}
		if strings.HasPrefix(strings.TrimSpace(line), "(error") {
			panic(engineError{"get-value: " + line})
		}
		for i := 0; i < len(line); i++ {
			c := line[i]
			switch c {
			case '(':
				depth++
				started = true
			case ')':
				if tok.Len() > 0 {
					toks = append(toks, tok.String())
					tok.Reset()
				}
				depth--
			case ' ', '\n', '\t', '\r':
				if tok.Len() > 0 {
					toks = append(toks, tok.String())
					tok.Reset()
				}
			default:
				tok.WriteByte(c)
			}
		}
	}
	// toks alternate name, value (z3 prints (_ bvN w) never in this mode)
	byName := make(map[string]uint64, need)
	for i := 0; i+1 < len(toks); i += 2 {
		byName[toks[i]] = parseLit(toks[i+1])
		got++
	}
	for _, v := range s.declVars {
		m.vals[v.id] = byName[v.name]
	}
}

func parseLit(s string) uint64 {
	switch {
	case s == "true":
		return 1
	case s == "false":
		return 0
	case strings.HasPrefix(s, "#x"):
		v, _ := strconv.ParseUint(s[2:], 16, 64)
		return v
	case strings.HasPrefix(s, "#b"):
		v, _ := strconv.ParseUint(s[2:], 2, 64)
		return v
	}
	panic(engineError{"cannot parse model literal " + s})
}

type engineError struct{ msg string }

func (e engineError) Error() string { return e.msg }
