package main

// Loading: go/packages + go/ssa over /repo's current working tree, with the
// harness files, primitive declarations and single-line source rewrites
// (constant re-scaling, function renames for stubs) injected as an overlay.

import (
	"crypto/sha256"
	"encoding/hex"
	"encoding/json"
	"fmt"
	"os"
	"path/filepath"
	"sort"
	"strings"
	"time"

	"golang.org/x/tools/go/packages"
	"golang.org/x/tools/go/ssa"
	"golang.org/x/tools/go/ssa/ssautil"
)

const modPath = "github.com/syndtr/goleveldb"

type Rewrite struct {
	File string `json:"file"`
	Old  string `json:"old"`
	New  string `json:"new"`
}

type HarnessSpec struct {
	Fn        string `json:"fn"`
	Pkg       string `json:"pkg"` // repo-relative package dir, e.g. leveldb/journal
	Property  string `json:"property"`
	Tier      string `json:"tier"` // quick | thorough (quick harnesses also run in thorough)
	TimeoutS  int    `json:"timeout_s"`
	MaxSteps  int64  `json:"max_steps"`
	Switches  int    `json:"switches"`
	Opaque    bool   `json:"opaque_div"`
	Note      string `json:"note"`
	Expect    string `json:"expect"` // "" (pass) | "finding:<key>"
	Native    bool   `json:"native"` // witnesses replay natively (default true unless threads)
	NoNative  bool   `json:"no_native"`
	TimeND    bool   `json:"time_nondet"`
	RandND    bool   `json:"rand_nondet"`
	Sched     string `json:"sched"` // "" = every sync operation is a scheduling point; "chan" = channel operations only
	Witness   bool   `json:"witness"` // reachability twin: must be VIOLATED
}

type Suite struct {
	Name      string                       `json:"name"`
	Files     map[string]string            `json:"files"`  // repo-relative target -> path relative to /verif/harness
	Rewrites  []Rewrite                    `json:"rewrites"`
	Consts    map[string]map[string]string `json:"consts"` // pkg dir -> name -> Go expression
	Harnesses []HarnessSpec                `json:"harnesses"`
	Bounds    string                       `json:"bounds"`
	Outside   []string                     `json:"outside"`
	Stubs     []string                     `json:"stubs"`
	dir       string
}

type Loaded struct {
	prog      *ssa.Program
	pkgs      map[string]*ssa.Package // by repo-relative dir
	suite     *Suite
	repo      string
	overlay   map[string][]byte
	fileHash  map[string]string
	loadTime  time.Duration
	initAllow map[string]bool
}

var vpDecls = `
func vpNondetU8() uint8
func vpNondetU16() uint16
func vpNondetU32() uint32
func vpNondetU64() uint64
func vpNondetInt() int
func vpNondetBool() bool
func vpChoose(n int) int
func vpAssume(c bool)
func vpAssert(c bool, id string)
func vpAnd(a, b bool) bool
func vpOr(a, b bool) bool
func vpImplies(a, b bool) bool
func vpIteInt(c bool, a, b int) int
func vpIteU64(c bool, a, b uint64) uint64
func vpIteU8(c bool, a, b uint8) uint8
func vpEqBytes(a, b []byte) bool
func vpHavoc(b []byte)
func vpRank(b []byte) uint64
func vpJoin()
func vpYield()
func vpSettle()
func vpEager()
func vpSameBacking(a, b []byte) bool
`

func repoDir() string {
	if d := os.Getenv("VERIF_REPO"); d != "" {
		return d
	}
	return "/repo"
}

func verifDir() string {
	if d := os.Getenv("VERIF_DIR"); d != "" {
		return d
	}
	return "/verif"
}

func readSuite(name string) (*Suite, error) {
	p := filepath.Join(verifDir(), "harness", name+".json")
	b, err := os.ReadFile(p)
	if err != nil {
		return nil, err
	}
	var s Suite
	if err := json.Unmarshal(b, &s); err != nil {
		return nil, fmt.Errorf("%s: %v", p, err)
	}
	s.dir = filepath.Join(verifDir(), "harness")
	if s.Name == "" {
		s.Name = name
	}
	return &s, nil
}

// buildOverlay computes the overlay (absolute path in repo -> contents).
// native selects the natively compilable variant of the primitives.
func buildOverlay(s *Suite, repo string, native bool, tapeJSON string) (map[string][]byte, map[string]string, error) {
	ov := map[string][]byte{}
	hashes := map[string]string{}
	pkgDirs := map[string]string{} // dir -> package name
	for target, src := range s.Files {
		b, err := os.ReadFile(filepath.Join(s.dir, src))
		if err != nil {
			return nil, nil, err
		}
		ov[filepath.Join(repo, target)] = b
		pkgDirs[filepath.Dir(target)] = pkgNameOf(b)
	}
	for _, rw := range s.Rewrites {
		abs := filepath.Join(repo, rw.File)
		var b []byte
		if cur, ok := ov[abs]; ok {
			b = cur
		} else {
			var err error
			b, err = os.ReadFile(abs)
			if err != nil {
				return nil, nil, err
			}
		}
		n := strings.Count(string(b), rw.Old)
		if n != 1 {
			return nil, nil, fmt.Errorf("rewrite of %s: pattern %q found %d times (need exactly 1) — the source changed, refusing to run on stale assumptions", rw.File, rw.Old, n)
		}
		ov[abs] = []byte(strings.Replace(string(b), rw.Old, rw.New, 1))
	}
	for dir, consts := range s.Consts {
		var sb strings.Builder
		fmt.Fprintf(&sb, "package %s\n\nconst (\n", pkgDirs[dir])
		names := make([]string, 0, len(consts))
		for k := range consts {
			names = append(names, k)
		}
		sort.Strings(names)
		for _, k := range names {
			fmt.Fprintf(&sb, "\t%s = %s\n", k, consts[k])
		}
		sb.WriteString(")\n")
		ov[filepath.Join(repo, dir, "zz_vp_params.go")] = []byte(sb.String())
	}
	for dir, pkg := range pkgDirs {
		if native {
			ov[filepath.Join(repo, dir, "zz_vp_native.go")] = []byte(nativePrims(pkg, tapeJSON))
		} else {
			ov[filepath.Join(repo, dir, "zz_vp_decl.go")] = []byte("package " + pkg + "\n" + vpDecls)
		}
	}
	return ov, hashes, nil
}

func pkgNameOf(src []byte) string {
	for _, line := range strings.Split(string(src), "\n") {
		line = strings.TrimSpace(line)
		if strings.HasPrefix(line, "package ") {
			return strings.Fields(line)[1]
		}
	}
	return "main"
}

func loadSuite(s *Suite) (*Loaded, error) {
	t0 := time.Now()
	repo := repoDir()
	ov, _, err := buildOverlay(s, repo, false, "")
	if err != nil {
		return nil, err
	}
	var patterns []string
	seen := map[string]bool{}
	for target := range s.Files {
		d := "./" + filepath.Dir(target)
		if !seen[d] {
			seen[d] = true
			patterns = append(patterns, d)
		}
	}
	sort.Strings(patterns)
	cfg := &packages.Config{
		Mode:    packages.LoadAllSyntax,
		Dir:     repo,
		Overlay: ov,
		Env:     append(os.Environ(), "GOFLAGS=-mod=mod", "GOPROXY=off", "GOSUMDB=off", "GOTOOLCHAIN=local"),
	}
	initial, err := packages.Load(cfg, patterns...)
	if err != nil {
		return nil, err
	}
	nerr := 0
	packages.Visit(initial, nil, func(p *packages.Package) {
		for _, e := range p.Errors {
			if strings.HasPrefix(p.PkgPath, modPath) {
				fmt.Fprintf(os.Stderr, "load error in %s: %v\n", p.PkgPath, e)
				nerr++
			}
		}
	})
	if nerr > 0 {
		return nil, fmt.Errorf("%d type/load errors in %s packages (harness out of date with the tree?)", nerr, modPath)
	}
	prog, _ := ssautil.AllPackages(initial, ssa.InstantiateGenerics)
	prog.Build()
	ld := &Loaded{prog: prog, pkgs: map[string]*ssa.Package{}, suite: s, repo: repo, overlay: map[string][]byte{}, fileHash: map[string]string{}}
	for k, v := range ov {
		ld.overlay[k] = v
	}
	for _, p := range prog.AllPackages() {
		path := p.Pkg.Path()
		if strings.HasPrefix(path, modPath) {
			rel := strings.TrimPrefix(strings.TrimPrefix(path, modPath), "/")
			ld.pkgs[rel] = p
		}
	}
	ld.initAllow = map[string]bool{}
	// stdlib package initialisers are not executed (several need reflection);
	// their error variables are materialised lazily as distinct error objects.
	ld.loadTime = time.Since(t0)
	return ld, nil
}

func (ld *Loaded) initAllowed(path string) bool {
	if strings.HasPrefix(path, modPath) {
		// storage's file backend pulls in os/syscall; its init has nothing we need
		return true
	}
	return ld.initAllow[path]
}

func (ld *Loaded) hashFile(path string) string {
	if h, ok := ld.fileHash[path]; ok {
		return h
	}
	var b []byte
	if ob, ok := ld.overlay[path]; ok {
		b = ob
	} else {
		b, _ = os.ReadFile(path)
	}
	sum := sha256.Sum256(b)
	h := hex.EncodeToString(sum[:8])
	ld.fileHash[path] = h
	return h
}

func (ld *Loaded) findFunc(pkgDir, name string) *ssa.Function {
	p := ld.pkgs[pkgDir]
	if p == nil {
		return nil
	}
	return p.Func(name)
}
