package main

// Hash-consed SMT terms over fixed-width bit-vectors (width 1..64) and Bool
// (width 0). Every scalar of the interpreted program is a *Term; concrete
// values are OConst terms and all constructors constant-fold, so a value whose
// inputs are concrete never reaches the solver.

import (
	"fmt"
	"math/bits"
	"strings"
)

type Op uint8

const (
	OConst Op = iota
	OVar
	OAdd
	OSub
	OMul
	OUDiv
	OURem
	OSDiv
	OSRem
	OAnd
	OOr
	OXor
	OShl
	OLShr
	OAShr
	ONot // bvnot
	ONeg // bvneg
	OEq  // bool result, any sort args
	OULt
	OULe
	OSLt
	OSLe
	OIte
	OExtract // val = hi<<8|lo
	OZExt
	OSExt
	OConcat
	OBNot
	OBAnd
	OBOr
)

var opNames = [...]string{"const", "var", "bvadd", "bvsub", "bvmul", "bvudiv", "bvurem", "bvsdiv", "bvsrem",
	"bvand", "bvor", "bvxor", "bvshl", "bvlshr", "bvashr", "bvnot", "bvneg", "=", "bvult", "bvule", "bvslt", "bvsle",
	"ite", "extract", "zero_extend", "sign_extend", "concat", "not", "and", "or"}

type Term struct {
	op      Op
	w       uint8 // 0 = Bool
	a, b, c *Term
	val     uint64 // const value / var index / extract params
	id      int32
	name    string // for vars
}

type termKey struct {
	op      Op
	w       uint8
	a, b, c int32
	val     uint64
}

// TermStore is per worker (no locking).
type TermStore struct {
	tab    map[termKey]*Term
	all    []*Term
	vars   []*Term
	tTrue  *Term
	tFalse *Term
}

func NewTermStore() *TermStore {
	ts := &TermStore{tab: make(map[termKey]*Term, 1<<16)}
	ts.tFalse = ts.mk(OConst, 0, nil, nil, nil, 0)
	ts.tTrue = ts.mk(OConst, 0, nil, nil, nil, 1)
	return ts
}

func tid(t *Term) int32 {
	if t == nil {
		return -1
	}
	return t.id
}

func (ts *TermStore) mk(op Op, w uint8, a, b, c *Term, val uint64) *Term {
	k := termKey{op, w, tid(a), tid(b), tid(c), val}
	if t, ok := ts.tab[k]; ok {
		return t
	}
	t := &Term{op: op, w: w, a: a, b: b, c: c, val: val, id: int32(len(ts.all))}
	ts.all = append(ts.all, t)
	ts.tab[k] = t
	return t
}

func mask(w uint8) uint64 {
	if w >= 64 {
		return ^uint64(0)
	}
	return (uint64(1) << w) - 1
}

func (ts *TermStore) Const(w uint8, v uint64) *Term {
	if w == 0 {
		if v != 0 {
			return ts.tTrue
		}
		return ts.tFalse
	}
	return ts.mk(OConst, w, nil, nil, nil, v&mask(w))
}

func (ts *TermStore) Bool(b bool) *Term {
	if b {
		return ts.tTrue
	}
	return ts.tFalse
}

// Var returns the variable with the given per-path index (stable across
// re-executions of the same path prefix).
func (ts *TermStore) Var(w uint8, idx int, name string) *Term {
	t := ts.mk(OVar, w, nil, nil, nil, uint64(idx))
	if t.name == "" {
		t.name = name
		ts.vars = append(ts.vars, t)
	}
	return t
}

func (t *Term) IsConst() bool { return t.op == OConst }
func (t *Term) IsTrue() bool  { return t.op == OConst && t.w == 0 && t.val == 1 }
func (t *Term) IsFalse() bool { return t.op == OConst && t.w == 0 && t.val == 0 }

func sext(v uint64, w uint8) int64 {
	if w >= 64 {
		return int64(v)
	}
	sh := 64 - uint(w)
	return int64(v<<sh) >> sh
}

func foldBin(op Op, w uint8, x, y uint64) (uint64, bool) {
	m := mask(w)
	switch op {
	case OAdd:
		return (x + y) & m, true
	case OSub:
		return (x - y) & m, true
	case OMul:
		return (x * y) & m, true
	case OUDiv:
		if y == 0 {
			return m, true
		}
		return x / y, true
	case OURem:
		if y == 0 {
			return x, true
		}
		return x % y, true
	case OSDiv:
		if y == 0 {
			if sext(x, w) < 0 {
				return 1, true
			}
			return m, true
		}
		sx, sy := sext(x, w), sext(y, w)
		if sy == -1 {
			return uint64(-sx) & m, true
		}
		return uint64(sx/sy) & m, true
	case OSRem:
		if y == 0 {
			return x, true
		}
		sx, sy := sext(x, w), sext(y, w)
		if sy == -1 {
			return 0, true
		}
		return uint64(sx%sy) & m, true
	case OAnd:
		return x & y, true
	case OOr:
		return x | y, true
	case OXor:
		return x ^ y, true
	case OShl:
		if y >= uint64(w) {
			return 0, true
		}
		return (x << y) & m, true
	case OLShr:
		if y >= uint64(w) {
			return 0, true
		}
		return x >> y, true
	case OAShr:
		if y >= uint64(w) {
			if sext(x, w) < 0 {
				return m, true
			}
			return 0, true
		}
		return uint64(sext(x, w)>>y) & m, true
	}
	return 0, false
}

func foldCmp(op Op, w uint8, x, y uint64) bool {
	switch op {
	case OEq:
		return x == y
	case OULt:
		return x < y
	case OULe:
		return x <= y
	case OSLt:
		return sext(x, w) < sext(y, w)
	case OSLe:
		return sext(x, w) <= sext(y, w)
	}
	panic("foldCmp")
}

func isCommutative(op Op) bool {
	switch op {
	case OAdd, OMul, OAnd, OOr, OXor, OEq, OBAnd, OBOr:
		return true
	}
	return false
}

// iteConstLeaves reports whether t is an ite tree all of whose leaves are
// constants (typical for three-way compare results).
func iteConstLeaves(t *Term, depth int) bool {
	if t.op == OConst {
		return true
	}
	if t.op == OIte && depth < 6 {
		return iteConstLeaves(t.b, depth+1) && iteConstLeaves(t.c, depth+1)
	}
	return false
}

// Bin builds a bit-vector binary operation.
func (ts *TermStore) Bin(op Op, a, b *Term) *Term {
	if a.w != b.w {
		panic(fmt.Sprintf("Bin %s width mismatch %d vs %d", opNames[op], a.w, b.w))
	}
	w := a.w
	if a.op == OConst && b.op == OConst {
		if v, ok := foldBin(op, w, a.val, b.val); ok {
			return ts.Const(w, v)
		}
	}
	// lift over ite-of-constants when the other side is constant
	if b.op == OConst && a.op == OIte && iteConstLeaves(a, 0) {
		return ts.Ite(a.a, ts.Bin(op, a.b, b), ts.Bin(op, a.c, b))
	}
	if a.op == OConst && b.op == OIte && iteConstLeaves(b, 0) {
		return ts.Ite(b.a, ts.Bin(op, a, b.b), ts.Bin(op, a, b.c))
	}
	if isCommutative(op) && a.op == OConst {
		a, b = b, a
	}
	if b.op == OConst {
		switch op {
		case OAdd, OSub, OOr, OXor, OShl, OLShr, OAShr:
			if b.val == 0 {
				return a
			}
		case OAnd:
			if b.val == 0 {
				return b
			}
			if b.val == mask(w) {
				return a
			}
		case OMul:
			if b.val == 0 {
				return b
			}
			if b.val == 1 {
				return a
			}
		case OUDiv:
			if b.val == 1 {
				return a
			}
		}
		if (op == OShl || op == OLShr) && b.val >= uint64(w) {
			return ts.Const(w, 0)
		}
		// (x + c1) + c2
		if op == OAdd && a.op == OAdd && a.b.op == OConst {
			return ts.Bin(OAdd, a.a, ts.Const(w, a.b.val+b.val))
		}
		if op == OSub {
			return ts.Bin(OAdd, a, ts.Const(w, -b.val))
		}
		// zext(x) & mask-of-x-width
		if op == OAnd && a.op == OZExt && b.val == mask(a.a.w) {
			return a
		}
		// (zext x) >> k with k >= width(x) = 0
		if op == OLShr && a.op == OZExt && b.val >= uint64(a.a.w) {
			return ts.Const(w, 0)
		}
	}
	if a == b {
		switch op {
		case OSub, OXor:
			return ts.Const(w, 0)
		case OAnd, OOr:
			return a
		}
	}
	if isCommutative(op) && b.op != OConst && a.id > b.id {
		a, b = b, a
	}
	return ts.mk(op, w, a, b, nil, 0)
}

// Cmp builds a comparison (Bool result).
func (ts *TermStore) Cmp(op Op, a, b *Term) *Term {
	if a.w != b.w {
		panic(fmt.Sprintf("Cmp %s width mismatch %d vs %d", opNames[op], a.w, b.w))
	}
	if a.w == 0 {
		if op != OEq {
			panic("bool order compare")
		}
		return ts.Iff(a, b)
	}
	if a.op == OConst && b.op == OConst {
		return ts.Bool(foldCmp(op, a.w, a.val, b.val))
	}
	if a == b {
		switch op {
		case OEq, OULe, OSLe:
			return ts.tTrue
		default:
			return ts.tFalse
		}
	}
	if b.op == OConst && a.op == OIte && iteConstLeaves(a, 0) {
		return ts.Ite(a.a, ts.Cmp(op, a.b, b), ts.Cmp(op, a.c, b))
	}
	if a.op == OConst && b.op == OIte && iteConstLeaves(b, 0) {
		return ts.Ite(b.a, ts.Cmp(op, a, b.b), ts.Cmp(op, a, b.c))
	}
	if op == OEq {
		// zext(x) == c  with c out of range -> false; in range -> x == c'
		if b.op == OConst && a.op == OZExt {
			if b.val > mask(a.a.w) {
				return ts.tFalse
			}
			return ts.Cmp(OEq, a.a, ts.Const(a.a.w, b.val))
		}
		if a.op == OConst && b.op == OZExt {
			return ts.Cmp(OEq, b, a)
		}
		if a.op == OZExt && b.op == OZExt && a.a.w == b.a.w {
			return ts.Cmp(OEq, a.a, b.a)
		}
		if a.op == OConst {
			a, b = b, a
		}
		if b.op == OConst {
			// (x >> k) == c  ->  x[w-1:k] == c
			if a.op == OLShr && a.b.op == OConst && a.b.val > 0 && a.b.val < uint64(a.w) {
				k := uint8(a.b.val)
				if b.val > mask(a.w-k) {
					return ts.tFalse
				}
				return ts.Cmp(OEq, ts.Extract(a.a, a.w-1, k), ts.Const(a.w-k, b.val))
			}
			// (y & lowmask) == c  ->  y[k-1:0] == c
			if a.op == OAnd && a.b.op == OConst {
				mk := a.b.val
				if mk != 0 && mk&(mk+1) == 0 && mk != mask(a.w) {
					k := uint8(bits.Len64(mk))
					if b.val > mk {
						return ts.tFalse
					}
					return ts.Cmp(OEq, ts.Extract(a.a, k-1, 0), ts.Const(k, b.val))
				}
			}
		}
		if b.op != OConst && a.id > b.id {
			a, b = b, a
		}
	}
	if op == OULt {
		if b.op == OConst && b.val == 0 {
			return ts.tFalse
		}
		if a.op == OZExt && b.op == OConst && b.val > mask(a.a.w) {
			return ts.tTrue
		}
		if a.op == OZExt && b.op == OZExt && a.a.w == b.a.w {
			return ts.Cmp(OULt, a.a, b.a)
		}
	}
	if op == OULe {
		if a.op == OConst && a.val == 0 {
			return ts.tTrue
		}
		// a <= b  ==  !(b < a): one atom per pair, so decided literals are recognised
		return ts.Not(ts.Cmp(OULt, b, a))
	}
	if op == OSLe {
		return ts.Not(ts.Cmp(OSLt, b, a))
	}
	if op == OSLt && a.op == OZExt && b.op == OZExt && a.a.w == b.a.w && a.w > a.a.w {
		return ts.Cmp(OULt, a.a, b.a)
	}
	return ts.mk(op, 0, a, b, nil, 0)
}

func (ts *TermStore) Not(a *Term) *Term {
	if a.w != 0 {
		panic("Not on non-bool")
	}
	if a.op == OConst {
		return ts.Bool(a.val == 0)
	}
	if a.op == OBNot {
		return a.a
	}
	return ts.mk(OBNot, 0, a, nil, nil, 0)
}

func (ts *TermStore) And(a, b *Term) *Term {
	if a.w != 0 || b.w != 0 {
		panic("And on non-bool")
	}
	if a.IsFalse() || b.IsFalse() {
		return ts.tFalse
	}
	if a.IsTrue() {
		return b
	}
	if b.IsTrue() {
		return a
	}
	if a == b {
		return a
	}
	if a.id > b.id {
		a, b = b, a
	}
	return ts.mk(OBAnd, 0, a, b, nil, 0)
}

func (ts *TermStore) Or(a, b *Term) *Term {
	if a.w != 0 || b.w != 0 {
		panic("Or on non-bool")
	}
	if a.IsTrue() || b.IsTrue() {
		return ts.tTrue
	}
	if a.IsFalse() {
		return b
	}
	if b.IsFalse() {
		return a
	}
	if a == b {
		return a
	}
	if a.id > b.id {
		a, b = b, a
	}
	return ts.mk(OBOr, 0, a, b, nil, 0)
}

func (ts *TermStore) Iff(a, b *Term) *Term {
	if a.op == OConst {
		if a.val == 1 {
			return b
		}
		return ts.Not(b)
	}
	if b.op == OConst {
		if b.val == 1 {
			return a
		}
		return ts.Not(a)
	}
	if a == b {
		return ts.tTrue
	}
	if a.id > b.id {
		a, b = b, a
	}
	return ts.mk(OEq, 0, a, b, nil, 0)
}

func (ts *TermStore) Implies(a, b *Term) *Term { return ts.Or(ts.Not(a), b) }

func (ts *TermStore) Ite(c, a, b *Term) *Term {
	if c.w != 0 {
		panic("Ite cond not bool")
	}
	if a.w != b.w {
		panic("Ite width mismatch")
	}
	if c.IsTrue() {
		return a
	}
	if c.IsFalse() {
		return b
	}
	if a == b {
		return a
	}
	if a.w == 0 {
		if a.IsTrue() && b.IsFalse() {
			return c
		}
		if a.IsFalse() && b.IsTrue() {
			return ts.Not(c)
		}
		if a.IsTrue() {
			return ts.Or(c, b)
		}
		if a.IsFalse() {
			return ts.And(ts.Not(c), b)
		}
		if b.IsTrue() {
			return ts.Or(ts.Not(c), a)
		}
		if b.IsFalse() {
			return ts.And(c, a)
		}
	}
	if c.op == OBNot {
		return ts.Ite(c.a, b, a)
	}
	// ite(c, x|y, x) = x | ite(c, y, 0)   (read-modify-write through a symbolic index)
	if a.op == OOr && a.w != 0 {
		if a.a == b {
			return ts.Bin(OOr, b, ts.Ite(c, a.b, ts.Const(a.w, 0)))
		}
		if a.b == b {
			return ts.Bin(OOr, b, ts.Ite(c, a.a, ts.Const(a.w, 0)))
		}
	}
	return ts.mk(OIte, a.w, c, a, b, 0)
}

func (ts *TermStore) BvNot(a *Term) *Term {
	if a.op == OConst {
		return ts.Const(a.w, ^a.val)
	}
	if a.op == ONot {
		return a.a
	}
	return ts.mk(ONot, a.w, a, nil, nil, 0)
}

func (ts *TermStore) Neg(a *Term) *Term {
	if a.op == OConst {
		return ts.Const(a.w, -a.val)
	}
	if a.op == OIte && iteConstLeaves(a, 0) {
		return ts.Ite(a.a, ts.Neg(a.b), ts.Neg(a.c))
	}
	return ts.mk(ONeg, a.w, a, nil, nil, 0)
}

func (ts *TermStore) Extract(a *Term, hi, lo uint8) *Term {
	w := hi - lo + 1
	if lo == 0 && w == a.w {
		return a
	}
	if a.op == OConst {
		return ts.Const(w, a.val>>lo)
	}
	if a.op == OZExt || a.op == OSExt {
		if hi < a.a.w {
			return ts.Extract(a.a, hi, lo)
		}
		if a.op == OZExt && lo >= a.a.w {
			return ts.Const(w, 0)
		}
	}
	if a.op == OConcat {
		lw := a.b.w
		if hi < lw {
			return ts.Extract(a.b, hi, lo)
		}
		if lo >= lw {
			return ts.Extract(a.a, hi-lw, lo-lw)
		}
	}
	if a.op == OIte && iteConstLeaves(a, 0) {
		return ts.Ite(a.a, ts.Extract(a.b, hi, lo), ts.Extract(a.c, hi, lo))
	}
	// extract of (x >> k) low bits: extract directly from x
	if a.op == OLShr && a.b.op == OConst && uint64(hi)+a.b.val < uint64(a.w) {
		k := uint8(a.b.val)
		return ts.Extract(a.a, hi+k, lo+k)
	}
	// extract low bits of bitwise ops / add distributes for and/or/xor
	if a.op == OOr || a.op == OAnd || a.op == OXor {
		return ts.Bin(a.op, ts.Extract(a.a, hi, lo), ts.Extract(a.b, hi, lo))
	}
	if a.op == OShl && a.b.op == OConst && lo == 0 {
		k := a.b.val
		if k > uint64(hi) {
			return ts.Const(w, 0)
		}
	}
	if a.op == OShl && a.b.op == OConst && uint64(lo) >= a.b.val {
		k := uint8(a.b.val)
		return ts.Extract(a.a, hi-k, lo-k)
	}
	return ts.mk(OExtract, w, a, nil, nil, uint64(hi)<<8|uint64(lo))
}

func (ts *TermStore) ZExt(a *Term, w uint8) *Term {
	if w == a.w {
		return a
	}
	if w < a.w {
		return ts.Extract(a, w-1, 0)
	}
	if a.op == OConst {
		return ts.Const(w, a.val)
	}
	if a.op == OZExt {
		return ts.ZExt(a.a, w)
	}
	if a.op == OIte && iteConstLeaves(a, 0) {
		return ts.Ite(a.a, ts.ZExt(a.b, w), ts.ZExt(a.c, w))
	}
	return ts.mk(OZExt, w, a, nil, nil, 0)
}

func (ts *TermStore) SExt(a *Term, w uint8) *Term {
	if w == a.w {
		return a
	}
	if w < a.w {
		return ts.Extract(a, w-1, 0)
	}
	if a.op == OConst {
		return ts.Const(w, uint64(sext(a.val, a.w)))
	}
	if a.op == OIte && iteConstLeaves(a, 0) {
		return ts.Ite(a.a, ts.SExt(a.b, w), ts.SExt(a.c, w))
	}
	if a.op == OZExt {
		return ts.ZExt(a.a, w)
	}
	return ts.mk(OSExt, w, a, nil, nil, 0)
}

func (ts *TermStore) Concat(hi, lo *Term) *Term {
	if hi.op == OConst && lo.op == OConst {
		return ts.Const(hi.w+lo.w, hi.val<<lo.w|lo.val)
	}
	return ts.mk(OConcat, hi.w+lo.w, hi, lo, nil, 0)
}

// MaxU returns an upper bound (unsigned) of t by a cheap structural
// interval analysis; bounds maps variables to assumed upper bounds.
func (ts *TermStore) MaxU(t *Term, bounds map[int32]uint64, depth int) uint64 {
	m := maskB(t.w)
	if depth > 12 {
		return m
	}
	switch t.op {
	case OConst:
		return t.val
	case OVar:
		if b, ok := bounds[t.id]; ok && b < m {
			return b
		}
		return m
	case OZExt:
		return ts.MaxU(t.a, bounds, depth+1)
	case OAnd:
		a, b := ts.MaxU(t.a, bounds, depth+1), ts.MaxU(t.b, bounds, depth+1)
		if a < b {
			return a
		}
		return b
	case OLShr:
		if t.b.op == OConst {
			if t.b.val >= uint64(t.w) {
				return 0
			}
			return ts.MaxU(t.a, bounds, depth+1) >> t.b.val
		}
		return ts.MaxU(t.a, bounds, depth+1)
	case OUDiv:
		if t.b.op == OConst && t.b.val != 0 {
			return ts.MaxU(t.a, bounds, depth+1) / t.b.val
		}
	case OURem:
		if t.b.op == OConst && t.b.val != 0 {
			a := ts.MaxU(t.a, bounds, depth+1)
			if a < t.b.val-1 {
				return a
			}
			return t.b.val - 1
		}
	case OIte:
		a, b := ts.MaxU(t.b, bounds, depth+1), ts.MaxU(t.c, bounds, depth+1)
		if a > b {
			return a
		}
		return b
	case OExtract:
		if uint8(t.val) == 0 {
			a := ts.MaxU(t.a, bounds, depth+1)
			if a < m {
				return a
			}
		}
	case OAdd:
		a, b := ts.MaxU(t.a, bounds, depth+1), ts.MaxU(t.b, bounds, depth+1)
		if a <= m && b <= m-a {
			return a + b
		}
	}
	return m
}

// UnderEq rebuilds t under the assumption idx == c, where conds maps the
// hash-consed terms (idx == k) to k: ite nodes on such a condition are
// resolved. Used when a value loaded through a symbolic index is stored back
// through the same index (read-modify-write).
func (ts *TermStore) UnderEq(t *Term, conds map[*Term]uint64, c uint64, depth int) *Term {
	if depth > 40 || t.op == OConst || t.op == OVar {
		return t
	}
	switch t.op {
	case OIte:
		if k, ok := conds[t.a]; ok {
			if k == c {
				return ts.UnderEq(t.b, conds, c, depth+1)
			}
			return ts.UnderEq(t.c, conds, c, depth+1)
		}
		if depth > 6 {
			return t
		}
		return ts.Ite(t.a, ts.UnderEq(t.b, conds, c, depth+1), ts.UnderEq(t.c, conds, c, depth+1))
	case OAnd, OOr, OXor, OAdd, OSub:
		if depth > 6 {
			return t
		}
		return ts.Bin(t.op, ts.UnderEq(t.a, conds, c, depth+1), ts.UnderEq(t.b, conds, c, depth+1))
	case OZExt:
		return ts.ZExt(ts.UnderEq(t.a, conds, c, depth+1), t.w)
	case OSExt:
		return ts.SExt(ts.UnderEq(t.a, conds, c, depth+1), t.w)
	case OExtract:
		return ts.Extract(ts.UnderEq(t.a, conds, c, depth+1), uint8(t.val>>8), uint8(t.val))
	}
	return t
}

// ---- evaluation under a model ----

type Model struct {
	vals  map[int32]uint64 // var term id -> value
	cache map[int32]uint64
}

func NewModel() *Model {
	return &Model{vals: map[int32]uint64{}, cache: map[int32]uint64{}}
}

func (m *Model) Eval(t *Term) uint64 {
	switch t.op {
	case OConst:
		return t.val
	case OVar:
		return m.vals[t.id] & maskB(t.w)
	}
	if v, ok := m.cache[t.id]; ok {
		return v
	}
	var v uint64
	switch t.op {
	case OAdd, OSub, OMul, OUDiv, OURem, OSDiv, OSRem, OAnd, OOr, OXor, OShl, OLShr, OAShr:
		v, _ = foldBin(t.op, t.w, m.Eval(t.a), m.Eval(t.b))
	case ONot:
		v = ^m.Eval(t.a) & mask(t.w)
	case ONeg:
		v = -m.Eval(t.a) & mask(t.w)
	case OEq:
		v = b2u(m.Eval(t.a) == m.Eval(t.b))
	case OULt, OULe, OSLt, OSLe:
		v = b2u(foldCmp(t.op, t.a.w, m.Eval(t.a), m.Eval(t.b)))
	case OIte:
		if m.Eval(t.a) != 0 {
			v = m.Eval(t.b)
		} else {
			v = m.Eval(t.c)
		}
	case OExtract:
		hi, lo := uint8(t.val>>8), uint8(t.val)
		v = (m.Eval(t.a) >> lo) & mask(hi-lo+1)
	case OZExt:
		v = m.Eval(t.a)
	case OSExt:
		v = uint64(sext(m.Eval(t.a), t.a.w)) & mask(t.w)
	case OConcat:
		v = m.Eval(t.a)<<t.b.w | m.Eval(t.b)
	case OBNot:
		v = 1 - m.Eval(t.a)
	case OBAnd:
		v = m.Eval(t.a) & m.Eval(t.b)
	case OBOr:
		v = m.Eval(t.a) | m.Eval(t.b)
	default:
		panic("Eval: op " + opNames[t.op])
	}
	m.cache[t.id] = v
	return v
}

func maskB(w uint8) uint64 {
	if w == 0 {
		return 1
	}
	return mask(w)
}

func b2u(b bool) uint64 {
	if b {
		return 1
	}
	return 0
}

// ---- SMT-LIB printing ----

func sortOf(w uint8) string {
	if w == 0 {
		return "Bool"
	}
	return fmt.Sprintf("(_ BitVec %d)", w)
}

func constLit(w uint8, v uint64) string {
	if w == 0 {
		if v != 0 {
			return "true"
		}
		return "false"
	}
	if w%4 == 0 {
		return fmt.Sprintf("#x%0*x", int(w/4), v)
	}
	return fmt.Sprintf("#b%0*b", int(w), v)
}

// ref is how a term is referred to inside other terms.
func (t *Term) ref() string {
	switch t.op {
	case OConst:
		return constLit(t.w, t.val)
	case OVar:
		return t.name
	}
	return fmt.Sprintf("t%d", t.id)
}

func (t *Term) body() string {
	switch t.op {
	case OExtract:
		return fmt.Sprintf("((_ extract %d %d) %s)", t.val>>8, t.val&0xff, t.a.ref())
	case OZExt:
		return fmt.Sprintf("((_ zero_extend %d) %s)", t.w-t.a.w, t.a.ref())
	case OSExt:
		return fmt.Sprintf("((_ sign_extend %d) %s)", t.w-t.a.w, t.a.ref())
	}
	var sb strings.Builder
	sb.WriteByte('(')
	sb.WriteString(opNames[t.op])
	for _, x := range []*Term{t.a, t.b, t.c} {
		if x != nil {
			sb.WriteByte(' ')
			sb.WriteString(x.ref())
		}
	}
	sb.WriteByte(')')
	return sb.String()
}

// String renders a term as a tree (debugging, samples); depth-limited.
func (t *Term) String() string { return t.str(4) }

func (t *Term) str(d int) string {
	switch t.op {
	case OConst:
		if t.w == 0 {
			return constLit(0, t.val)
		}
		return fmt.Sprintf("%d", t.val)
	case OVar:
		return t.name
	}
	if d == 0 {
		return "…"
	}
	s := "(" + opNames[t.op]
	for _, x := range []*Term{t.a, t.b, t.c} {
		if x != nil {
			s += " " + x.str(d-1)
		}
	}
	return s + ")"
}

var _ = bits.Len
