package main

// Native replay: a solver witness (tape) is turned into an ordinary Go test
// that runs the same harness file against the really compiled package via
// `go test -overlay`; only witnesses that fail natively are reported.

import (
	"encoding/json"
	"fmt"
	"os"
	"os/exec"
	"path/filepath"
	"strings"
	"time"
)

func nativePrims(pkg string, tapeJSON string) string {
	return "package " + pkg + `

import (
	"encoding/json"
	"fmt"
	"os"
)

type zzTapeEntry struct {
	K   string ` + "`json:\"k\"`" + `
	W   uint8  ` + "`json:\"w\"`" + `
	V   uint64 ` + "`json:\"v\"`" + `
	Key []int  ` + "`json:\"key\"`" + `
}

var zzRankMap = map[string]uint64{}

var zzTape []zzTapeEntry
var zzTapePos int
var zzLoaded bool

func zzLoad() {
	if zzLoaded {
		return
	}
	zzLoaded = true
	b, err := os.ReadFile(os.Getenv("VP_TAPE"))
	if err != nil {
		panic("VP_TAPE: " + err.Error())
	}
	var all []zzTapeEntry
	if err := json.Unmarshal(b, &all); err != nil {
		panic(err)
	}
	for _, e := range all {
		switch e.K {
		case "nondet", "choose", "rand", "time":
			zzTape = append(zzTape, e)
		case "rank":
			kb := make([]byte, len(e.Key))
			for i, c := range e.Key {
				kb[i] = byte(c)
			}
			zzRankMap[string(kb)] = e.V
		}
	}
}

func zzNext(kind string) uint64 {
	zzLoad()
	if zzTapePos >= len(zzTape) {
		// the symbolic path ended before this call: any value will do
		return 0
	}
	e := zzTape[zzTapePos]
	zzTapePos++
	if e.K != kind {
		fmt.Printf("VP-TAPE-MISMATCH want %s have %s at %d\n", kind, e.K, zzTapePos-1)
	}
	return e.V
}

func vpNondetU8() uint8   { return uint8(zzNext("nondet")) }
func vpNondetU16() uint16 { return uint16(zzNext("nondet")) }
func vpNondetU32() uint32 { return uint32(zzNext("nondet")) }
func vpNondetU64() uint64 { return zzNext("nondet") }
func vpNondetInt() int    { return int(zzNext("nondet")) }
func vpNondetBool() bool  { return zzNext("nondet") != 0 }
func vpChoose(n int) int {
	v := int(zzNext("choose"))
	if v >= n {
		v = n - 1
	}
	return v
}
func vpAssume(c bool) {
	if !c {
		fmt.Println("VP-ASSUME-FALSE")
		os.Exit(0)
	}
}
func vpAssert(c bool, id string) {
	if !c {
		fmt.Printf("VP-ASSERT-FAIL %s\n", id)
		os.Exit(7)
	}
}
func vpAnd(a, b bool) bool     { return a && b }
func vpOr(a, b bool) bool      { return a || b }
func vpImplies(a, b bool) bool { return !a || b }
func vpIteInt(c bool, a, b int) int {
	if c {
		return a
	}
	return b
}
func vpIteU64(c bool, a, b uint64) uint64 {
	if c {
		return a
	}
	return b
}
func vpIteU8(c bool, a, b uint8) uint8 {
	if c {
		return a
	}
	return b
}
func vpEqBytes(a, b []byte) bool { return string(a) == string(b) }
func vpHavoc(b []byte) {
	for i := range b {
		b[i] = uint8(zzNext("nondet"))
	}
}


func vpRank(b []byte) uint64 {
	if len(b) == 0 {
		return 0
	}
	zzLoad()
	if r, ok := zzRankMap[string(b)]; ok {
		return r
	}
	// a string the symbolic path never ranked (the native run diverged or the
	// path ended earlier): any fresh rank keeps the order total
	r := uint64(1<<62) + uint64(len(zzRankMap))
	zzRankMap[string(b)] = r
	return r
}
func vpJoin()  {}
func vpYield() {}
func vpSettle() {}
func vpEager()  {}
func vpSameBacking(a, b []byte) bool {
	if cap(a) == 0 || cap(b) == 0 {
		return false
	}
	return &a[:cap(a)][cap(a)-1] == &b[:cap(b)][cap(b)-1]
}
`
}

type ReplayFile struct {
	Property  string            `json:"property"`
	Suite     string            `json:"suite"`
	Harness   string            `json:"harness"`
	Pkg       string            `json:"pkg"`
	Kind      string            `json:"kind"`
	ID        string            `json:"id"`
	Msg       string            `json:"msg"`
	Tape      []TapeEntry       `json:"tape"`
	Native    bool              `json:"native"`
	RepoFiles map[string]string `json:"repo_files,omitempty"`
}

// nativeReplay runs the harness natively on the tape. It returns whether the
// violation reproduced and the output.
func nativeReplay(s *Suite, spec *HarnessSpec, v *Violation) (bool, string, error) {
	repo := repoDir()
	tmp, err := os.MkdirTemp("", "symgo-replay-")
	if err != nil {
		return false, "", err
	}
	defer os.RemoveAll(tmp)
	tapeB, _ := json.Marshal(v.Tape)
	tapePath := filepath.Join(tmp, "tape.json")
	os.WriteFile(tapePath, tapeB, 0o644)
	ov, _, err := buildOverlay(s, repo, true, "")
	if err != nil {
		return false, "", err
	}
	pkgName := ""
	for target, src := range s.Files {
		if filepath.Dir(target) == spec.Pkg {
			b, _ := os.ReadFile(filepath.Join(s.dir, src))
			pkgName = pkgNameOf(b)
		}
	}
	test := fmt.Sprintf("package %s\n\nimport \"testing\"\n\nfunc TestZZReplay(t *testing.T) {\n\t%s()\n}\n", pkgName, spec.Fn)
	ov[filepath.Join(repo, spec.Pkg, "zz_vp_replay_test.go")] = []byte(test)
	repl := map[string]string{}
	i := 0
	for path, content := range ov {
		f := filepath.Join(tmp, fmt.Sprintf("f%d.go", i))
		i++
		if err := os.WriteFile(f, content, 0o644); err != nil {
			return false, "", err
		}
		repl[path] = f
	}
	ovJSON, _ := json.Marshal(map[string]interface{}{"Replace": repl})
	ovPath := filepath.Join(tmp, "overlay.json")
	os.WriteFile(ovPath, ovJSON, 0o644)
	cmd := exec.Command("go", "test", "-vet=off", "-count=1", "-run", "^TestZZReplay$", "-overlay", ovPath, "-timeout", "120s", "./"+spec.Pkg)
	cmd.Dir = repo
	cmd.Env = append(os.Environ(), "GOFLAGS=-mod=mod", "GOPROXY=off", "GOSUMDB=off", "GOTOOLCHAIN=local", "VP_TAPE="+tapePath)
	t0 := time.Now()
	out, _ := cmd.CombinedOutput()
	_ = t0
	o := string(out)
	switch v.Kind {
	case "pass":
		// a completed symbolic path must also complete natively
		ok := strings.Contains(o, "\nok ") || strings.HasPrefix(o, "ok ")
		bad := strings.Contains(o, "VP-ASSERT-FAIL") || strings.Contains(o, "VP-TAPE-MISMATCH") || strings.Contains(o, "panic:") || strings.Contains(o, "VP-ASSUME-FALSE")
		return ok && !bad, o, nil
	case "assert":
		return strings.Contains(o, "VP-ASSERT-FAIL "+v.ID), o, nil
	case "panic":
		return strings.Contains(o, "panic:") && !strings.Contains(o, "VP-TAPE") || strings.Contains(o, "panic:"), o, nil
	}
	return false, o, nil
}
