#!/bin/bash
# usage: seedtest.sh <PROP> <dir with patch.diff demo_test.go.txt> <pkgdir of demo> [test regex for existing tests]
# 1. confirms in a scratch worktree that the demo fails with the patch and passes without,
#    and that the package's existing tests still pass with the patch
# 2. applies the patch to /repo, runs the property's quick check, and undoes it
export GOFLAGS=-mod=mod GOPROXY=off GOSUMDB=off GOTOOLCHAIN=local
P=$1; D=$2; PKG=$3; RX=${4:-.}
W=/tmp/seedchk.$$
git -C /repo worktree add -f --detach $W HEAD -q || exit 2
cp $D/demo_test.go.txt $W/$PKG/zz_seed_demo_test.go
DEMO=$(grep -o 'func Test[A-Za-z0-9_]*' $W/$PKG/zz_seed_demo_test.go | sed 's/func //' | paste -sd'|')
echo "== demo tests: $DEMO"
(cd $W && go test -count=1 -run "^($DEMO)\$" ./$PKG/ > /tmp/seed_nopatch.log 2>&1); echo "demo WITHOUT patch: exit $? ($(tail -1 /tmp/seed_nopatch.log))"
(cd $W && git apply $D/patch.diff) || { echo "patch does not apply"; git -C /repo worktree remove --force $W; exit 2; }
(cd $W && go build ./... ) || echo "DOES NOT BUILD"
(cd $W && go test -count=1 -run "^($DEMO)\$" ./$PKG/ > /tmp/seed_patch.log 2>&1); echo "demo WITH patch: exit $? ($(tail -1 /tmp/seed_patch.log))"
rm $W/$PKG/zz_seed_demo_test.go
(cd $W && go test -count=1 -run "$RX" ./$PKG/ > /tmp/seed_existing.log 2>&1); echo "existing tests ($RX) WITH patch in $PKG: exit $? ($(tail -1 /tmp/seed_existing.log))"
git -C /repo worktree remove --force $W
echo "== applying to /repo and running check $P quick"
git -C /repo apply $D/patch.diff || exit 2
/verif/bin/symgo check $P -tier quick > /tmp/seed_check_$P.log 2>&1; RC=$?
git -C /repo checkout -- .
echo "check $P exit=$RC"; grep "VIOLATION property\|INCONCLUSIVE\|ENGINE-DIS\|^PASS\|^FAIL" /tmp/seed_check_$P.log | head -8
git -C /repo status --short | head -3
