#!/bin/bash
# usage: mut.sh <file-rel> <python-replace-old> <new> <suite> <harness> [more harnesses...]
# applies a one-off textual mutation to a scratch copy of /repo and runs harnesses against it
set -e
F=$1; OLD=$2; NEW=$3; SUITE=$4; shift 4
D=/dev/shm/mut.$$
mkdir -p $D && rsync -a --exclude .git /repo/ $D/
python3 - "$D/$F" "$OLD" "$NEW" <<'PY'
import sys
p,old,new=sys.argv[1:4]
s=open(p).read()
assert s.count(old)==1, "pattern count %d"%s.count(old)
open(p,'w').write(s.replace(old,new))
PY
(cd $D && GOFLAGS=-mod=mod go build ./... ) || { echo "MUTANT DOES NOT COMPILE"; rm -rf $D; exit 1; }
for H in "$@"; do
  VERIF_REPO=$D /verif/bin/symgo run -suite $SUITE -harness $H 2>&1 | grep -v "^\s\s\s\s" | grep -v "^  assert" | head -12
done
rm -rf $D
