#!/bin/bash
# runs every thorough-only harness once with its own timeout and prints the summary line
V=${VERIF_DIR:-/verif}; cd $V
python3 - <<'PY' > /tmp/thorough_list.txt
import json,glob
for f in sorted(glob.glob('harness/*.json')):
    d=json.load(open(f))
    seen=set()
    for h in d['harnesses']:
        if h.get('tier')=='thorough' and h['fn'] not in seen:
            seen.add(h['fn']); print(d['name'],h['fn'],h.get('timeout_s',600))
PY
while read S H T; do
  s=$(date +%s)
  R=$($V/bin/symgo run -suite $S -harness $H -timeout ${T}s -replay=false 2>&1 | grep "paths=" | cut -c1-220)
  e=$(date +%s)
  echo "$S $H $((e-s))s :: $R"
done < /tmp/thorough_list.txt
