#!/bin/bash
# runs every registered check of the given tier sequentially; prints a summary
TIER=${1:-quick}
V=${VERIF_DIR:-/verif}
cd $V
OUT=${RUNALL_OUT:-/tmp}
for id in $(python3 -c "import json;print(' '.join(c['property_id'] for c in json.load(open('MANIFEST.json'))['checks']))"); do
  s=$(date +%s)
  $V/bin/symgo check $id -tier $TIER > $OUT/check_${TIER}_$id.log 2>&1
  rc=$?
  e=$(date +%s)
  echo "$id exit=$rc $((e-s))s $(grep -c 'INCONCLUSIVE\|VIOLATION property\|ENGINE-DIS' $OUT/check_${TIER}_$id.log) issues; $(tail -1 $OUT/check_${TIER}_$id.log)"
done
