#!/bin/bash
# runs every registered check of the given tier sequentially; prints a summary
TIER=${1:-quick}
cd /verif
for id in $(python3 -c "import json;print(' '.join(c['property_id'] for c in json.load(open('MANIFEST.json'))['checks']))"); do
  s=$(date +%s)
  ./bin/symgo check $id -tier $TIER > /tmp/check_$id.log 2>&1
  rc=$?
  e=$(date +%s)
  echo "$id exit=$rc $((e-s))s $(grep -c 'INCONCLUSIVE\|VIOLATION property\|ENGINE-DIS' /tmp/check_$id.log) issues; $(tail -1 /tmp/check_$id.log)"
done
