#!/usr/bin/env python3
"""Regenerates /verif/MANIFEST.json from the harness suites and the per-property
descriptions in /verif/tools/claims.json."""
import json, glob, os
V='/verif'
props=[json.loads(l) for l in open(V+'/properties.jsonl')]
claims=json.load(open(V+'/tools/claims.json'))
have={}
for f in sorted(glob.glob(V+'/harness/*.json')):
    s=json.load(open(f))
    for h in s['harnesses']:
        have.setdefault(h['property'],[]).append((s['name'],h['fn'],h.get('tier','quick')))
env='GOFLAGS=-mod=mod GOPROXY=off GOSUMDB=off GOTOOLCHAIN=local'
checks=[]; na=[]
for p in props:
    pid=p['id']
    c=claims.get(pid,{})
    if pid in have and c.get('claim',True) and any(t!='thorough' for _,_,t in have[pid]):
        checks.append({
          "property_id":pid,
          "quick_cmd":"/verif/bin/symgo check %s -tier quick"%pid,
          "thorough_cmd":"/verif/bin/symgo check %s -tier thorough"%pid,
          "evidence_file":"/verif/evidence/%s.json"%pid,
          "replay_cmd_template":"/verif/bin/symgo replay {path}",
          "engine":"symgo",
          "level_claimed":{"category":"model_checking","text":c.get('text',''),"design_ref":c.get('design_ref','DESIGN.md §4 '+pid)},
          "level_note":c.get('note',''),
          "technique":c.get('technique',"bounded symbolic execution of the real go/ssa code (own executor symgo) with every assertion and branch decided by an SMT solver (z3); witnesses replayed natively"),
        })
    else:
        na.append({"property_id":pid,"reason":c.get('na_reason','no solver-based check has been built for this property yet')})
m={"version":1,
 "setup_cmd":"cd /verif/engine && %s go build -o /verif/bin/symgo . && cd /verif && /verif/bin/symgo selftest -smoke"%env,
 "hooks":{"guard":"verif","enable":"none needed: harnesses, primitive declarations and the one-line source rewrites (constant re-scaling, stub renames) are injected with go/packages overlays at load time and `go test -overlay` at replay time; /repo is never modified","baseline_off_cmd":json.load(open('/root/.vp/BASELINE.json'))['cmd'],"source_commits":[],"add_only":True},
 "engines":[{"name":"symgo","path":"/verif/engine","serves_properties":[c['property_id'] for c in checks],"kind_free_text":"symbolic executor for go/ssa (x/tools v0.29.0) written for this task: explicit decisions + re-execution DFS, bit-vector terms, z3-new 5.1.0 over a pipe (incremental) with one-shot QF_BV fallback, native replay of every witness through go test -overlay"}],
 "checks":checks,
 "not_applicable":na,
 "notes":"exit codes of a check: 0 = every harness of the property passed within its stated bounds (KNOWN-FINDING lines possible); 1 = a witness replayed against the real code (VIOLATION line); 3 = inconclusive (timeout, solver unknown, unsupported instruction, vacuity) — never reported as success. Bounds, stubs, scaled constants and what is outside each claim are in evidence/<id>.json and DESIGN.md."}
json.dump(m,open(V+'/MANIFEST.json','w'),indent=1)
print(len(checks),'checks;',len(na),'not applicable')
