#!/bin/bash
# like seedtest.sh, but the check runs against a scratch copy of /repo's HEAD with the patch applied
# (VERIF_REPO) instead of patching /repo itself — for use while a long sweep is reading /repo.
# usage: seedtest2.sh <PROP> <dir with patch.diff demo_test.go.txt> <pkgdir of demo>
export GOFLAGS=-mod=mod GOPROXY=off GOSUMDB=off GOTOOLCHAIN=local
P=$1; D=$2; PKG=$3
W=/dev/shm/seedchk.$$
mkdir -p $W && git -C /repo archive HEAD | tar -x -C $W || exit 2
cp $D/demo_test.go.txt $W/$PKG/zz_seed_demo_test.go
DEMO=$(grep -o 'func Test[A-Za-z0-9_]*' $W/$PKG/zz_seed_demo_test.go | sed 's/func //' | paste -sd'|')
echo "== demo tests: $DEMO"
(cd $W && go test -count=1 -run "^($DEMO)\$" ./$PKG/ > /tmp/seed_nopatch.log 2>&1); echo "demo WITHOUT patch: exit $? ($(tail -1 /tmp/seed_nopatch.log))"
(cd $W && patch -p1 -s < $D/patch.diff) || { echo "patch does not apply"; rm -rf $W; exit 2; }
(cd $W && go build ./... ) || echo "DOES NOT BUILD"
(cd $W && go test -count=1 -run "^($DEMO)\$" ./$PKG/ > /tmp/seed_patch.log 2>&1); echo "demo WITH patch: exit $? ($(tail -1 /tmp/seed_patch.log))"
rm $W/$PKG/zz_seed_demo_test.go
echo "== running check $P quick against the patched scratch copy"
# evidence and replays of this run go to a scratch copy of /verif, not to /verif
V=/dev/shm/seedverif.$$
rsync -a --exclude .git --exclude replays /verif/ $V/
VERIF_REPO=$W VERIF_DIR=$V $V/bin/symgo check $P -tier quick > /tmp/seed_check_$P.log 2>&1; RC=$?
rm -rf $W $V
echo "check $P exit=$RC"; grep "VIOLATION property\|INCONCLUSIVE\|ENGINE-DIS\|^PASS\|^FAIL" /tmp/seed_check_$P.log | head -8
